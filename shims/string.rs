// ---- shims/string.rs: str / String as character sequences (A-str) ------------
// The view of &str and String is vstd's Seq<char>. Byte offsets (String::len, slicing) are
// related to character positions through the opaque, strictly increasing `byte_len`.
pub uninterp spec fn byte_len(s: Seq<char>) -> nat;

/// ASCII strings take one byte per character (trusted; UTF-8)
pub broadcast axiom fn axiom_byte_len_ascii(s: Seq<char>)
    requires
        forall|i: int| 0 <= i < s.len() ==> (#[trigger] s[i] as u32) < 0x80,
    ensures
        #[trigger] byte_len(s) == s.len(),
;

/// Strings are determined by their contents (trusted): equal views are equal Strings
pub broadcast axiom fn axiom_string_ext(a: String, b: String)
    ensures
        #[trigger] a@ == #[trigger] b@ ==> a == b,
;

/// the String key with the given contents
pub open spec fn skey(s: Seq<char>) -> String {
    choose|k: String| k@ == s
}

/// every character sequence is the contents of some String (trusted)
pub broadcast axiom fn axiom_skey(s: Seq<char>)
    ensures
        #[trigger] skey(s)@ == s,
;

/// str::starts_with with a String / &str pattern (N11)
#[verifier::external_body]
pub fn vx_starts_with(s: &str, p: &String) -> (r: bool)
    ensures
        r == (p@.len() <= s@.len() && s@.take(p@.len() as int) == p@),
{
    s.starts_with(p.as_str())
}

/// String::len in bytes (N11)
#[verifier::external_body]
pub fn vx_string_len(s: &String) -> (r: usize)
    ensures
        r == byte_len(s@),
{
    s.len()
}

/// str::ends_with(char) on a String (N11)
#[verifier::external_body]
pub fn vx_string_ends_with_char(s: &String, c: char) -> (r: bool)
    ensures
        r == (s@.len() > 0 && s@.last() == c),
{
    s.ends_with(c)
}

/// str::trim (N11): some substring; nothing else is used
#[verifier::external_body]
pub fn vx_string_trim(s: &String) -> (r: &str) {
    s.trim()
}

/// `format!("{}{}", a, b)` of two strings (N6 with contents)
#[verifier::external_body]
pub fn vx_concat2(a: &str, b: &String) -> (r: String)
    ensures
        r@ == a@ + b@,
{
    format!("{}{}", a, b)
}

/// str::len in bytes (N11)
#[verifier::external_body]
pub fn vx_str_len(s: &str) -> (r: usize)
    ensures
        r == byte_len(s@),
{
    s.len()
}

/// `&s[n..]`: panics unless n is a character boundary of s (N11)
#[verifier::external_body]
pub fn vx_str_from(s: &str, n: usize) -> (r: &str)
    requires
        exists|k: int| 0 <= k <= s@.len() && #[trigger] byte_len(s@.take(k)) == n,
    ensures
        forall|k: int| 0 <= k <= s@.len() && #[trigger] byte_len(s@.take(k)) == n ==> r@ == s@.skip(k),
{
    &s[n..]
}

/// UTF-8: an ASCII character at the end takes one byte (trusted)
pub broadcast axiom fn axiom_byte_len_last_ascii(s: Seq<char>)
    requires
        s.len() > 0,
        (s.last() as u32) < 0x80,
    ensures
        #[trigger] byte_len(s) == byte_len(s.drop_last()) + 1,
;

/// `&s[0..n]`: panics unless n is a character boundary of s (N11)
#[verifier::external_body]
pub fn vx_str_upto(s: &str, n: usize) -> (r: &str)
    requires
        exists|k: int| 0 <= k <= s@.len() && #[trigger] byte_len(s@.take(k)) == n,
    ensures
        forall|k: int| 0 <= k <= s@.len() && #[trigger] byte_len(s@.take(k)) == n ==> r@ == s@.take(k),
{
    &s[0..n]
}

/// str::strip_suffix with a char pattern (N11)
#[verifier::external_body]
pub fn vx_strip_suffix_char(s: &str, c: char) -> (r: Option<&str>)
    ensures
        (s@.len() > 0 && s@.last() == c) ==> r is Some && r->Some_0@ == s@.drop_last(),
        !(s@.len() > 0 && s@.last() == c) ==> r is None,
{
    s.strip_suffix(c)
}

/// str == literal (N11 target for `name == "ans"`)
#[verifier::external_body]
pub fn vx_str_eq(a: &str, b: &str) -> (r: bool)
    ensures
        r == (a@ == b@),
{
    a == b
}

impl<V> BTreeMap<String, V> {
    /// BTreeMap<String, V>::get(&str) through Borrow<str> (N11: `.get` is renamed in slots that look up by &str)
    #[verifier::external_body]
    pub fn get_str(&self, key: &str) -> (r: Option<&V>)
        ensures
            self@.contains_key(skey(key@)) ==> r == Some(&self@[skey(key@)]),
            !self@.contains_key(skey(key@)) ==> r is None,
    {
        unimplemented!()
    }

    /// BTreeMap<String, V>::contains_key(&str) through Borrow<str>
    #[verifier::external_body]
    pub fn contains_key_str(&self, key: &str) -> (r: bool)
        ensures
            r == self@.contains_key(skey(key@)),
    {
        unimplemented!()
    }
}

/// std::collections::BTreeSet as a set (A-btree)
#[verifier::external_body]
#[verifier::reject_recursive_types(K)]
pub struct BTreeSet<K> {
    k: core::marker::PhantomData<K>,
}

impl<K> View for BTreeSet<K> {
    type V = ISet<K>;

    uninterp spec fn view(&self) -> ISet<K>;
}

impl BTreeSet<BaseUnit> {
    /// BTreeSet<BaseUnit>::get(&str) through Borrow<str>: the member with that name
    #[verifier::external_body]
    pub fn get_str(&self, key: &str) -> (r: Option<&BaseUnit>)
        ensures
            r is Some ==> self@.contains(*r->Some_0) && unit_name(*r->Some_0) == key@,
            r is None ==> forall|u: BaseUnit| #[trigger] self@.contains(u) ==> unit_name(u) != key@,
    {
        unimplemented!()
    }
}

impl BTreeSet<BaseUnit> {
    /// BTreeSet<BaseUnit>::contains(&str) through Borrow<str>
    #[verifier::external_body]
    pub fn contains_str(&self, key: &str) -> (r: bool)
        ensures
            r == exists|u: BaseUnit| #[trigger] self@.contains(u) && unit_name(u) == key@,
    {
        unimplemented!()
    }
}

impl BaseUnit {
    /// ToOwned / Clone
    #[verifier::external_body]
    pub fn to_owned(&self) -> (r: BaseUnit)
        ensures
            r == *self,
    {
        unimplemented!()
    }
}

/// str::to_owned / to_string (N11)
#[verifier::external_body]
pub fn vx_str_to_owned(s: &str) -> (r: String)
    ensures
        r@ == s@,
{
    s.to_owned()
}

/// String::to_string / clone (N11)
#[verifier::external_body]
pub fn vx_string_clone(s: &String) -> (r: String)
    ensures
        r@ == s@,
{
    s.clone()
}
