// ---- shims/baseunit.rs: rink_core::types::BaseUnit as an opaque ordered key (A-derive) ---
// The derived Clone/PartialEq/Eq/PartialOrd/Ord/Hash of
// `struct BaseUnit { id: Arc<String> }` behave structurally: clone is equal,
// `==` is equality, the order is the strict total order vx_lt.
#[verifier::external_body]
pub struct BaseUnit {
    id: u8,
}

/// the name of a base unit
pub uninterp spec fn unit_name(u: BaseUnit) -> Seq<char>;

impl BaseUnit {
    #[verifier::external_body]
    pub fn new(dim: &str) -> (r: BaseUnit)
        ensures
            unit_name(r) == dim@,
    {
        unimplemented!()
    }
}

/// two base units with the same name are the same key
pub broadcast axiom fn axiom_unit_name_inj(a: BaseUnit, b: BaseUnit)
    ensures
        #[trigger] unit_name(a) == #[trigger] unit_name(b) ==> a == b,
;

impl Clone for BaseUnit {
    #[verifier::external_body]
    fn clone(&self) -> (r: BaseUnit)
        ensures
            r == *self,
    {
        unimplemented!()
    }
}

impl vstd::std_specs::cmp::PartialEqSpecImpl for BaseUnit {
    open spec fn obeys_eq_spec() -> bool {
        true
    }

    open spec fn eq_spec(&self, other: &BaseUnit) -> bool {
        *self == *other
    }
}

impl PartialEq for BaseUnit {
    #[verifier::external_body]
    fn eq(&self, other: &BaseUnit) -> (r: bool)
    {
        unimplemented!()
    }
}

impl Eq for BaseUnit {

}

impl vstd::std_specs::cmp::PartialOrdSpecImpl for BaseUnit {
    open spec fn obeys_partial_cmp_spec() -> bool {
        true
    }

    open spec fn partial_cmp_spec(&self, other: &BaseUnit) -> Option<core::cmp::Ordering> {
        if vx_lt(*self, *other) {
            Some(core::cmp::Ordering::Less)
        } else if *self == *other {
            Some(core::cmp::Ordering::Equal)
        } else {
            Some(core::cmp::Ordering::Greater)
        }
    }
}

impl PartialOrd for BaseUnit {
    #[verifier::external_body]
    fn partial_cmp(&self, other: &BaseUnit) -> (r: Option<core::cmp::Ordering>)
    {
        unimplemented!()
    }
}
