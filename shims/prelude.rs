// ---- shims/prelude.rs: helpers every unit uses (trusted: A-std, A-fmt) -----
use vstd::arithmetic::power::pow;

// N6 targets
#[verifier::external_body]
pub fn vx_unreachable() -> !
    requires
        false,
{
    unreachable!()
}

pub fn vx_assert(c: bool)
    requires c,
{
}

#[verifier::external_body]
pub fn vx_fmt() -> (r: String) {
    String::new()
}

#[verifier::external_body]
pub fn vx_print() {
}

/// integer division truncating toward zero (what Rust and num-bigint `/` do)
pub open spec fn trunc_div(a: int, b: int) -> int {
    if a >= 0 {
        if b > 0 { a / b } else { -(a / (-b)) }
    } else {
        if b > 0 { -((-a) / b) } else { (-a) / (-b) }
    }
}

/// remainder with the sign of the dividend
pub open spec fn trunc_rem(a: int, b: int) -> int {
    a - b * trunc_div(a, b)
}

/// truncation toward zero of a real
pub open spec fn trunc_real(x: real) -> int {
    if x >= 0real { x.floor() } else { -((-x).floor()) }
}

pub open spec fn abs_real(x: real) -> real {
    if x >= 0real { x } else { -x }
}

pub open spec fn is_integral(x: real) -> bool {
    x == (x.floor() as real)
}

/// x^e for real x, natural e
pub open spec fn rpow(x: real, e: nat) -> real
    decreases e,
{
    if e == 0 { 1real } else { x * rpow(x, (e - 1) as nat) }
}

/// x^e for integer e (x != 0 when e < 0)
pub open spec fn rpowi(x: real, e: int) -> real {
    if e >= 0 { rpow(x, e as nat) } else { 1real / rpow(x, (-e) as nat) }
}

pub proof fn lemma_floor_div_nonneg(n: int, d: int)
    requires
        d > 0,
        n >= 0,
    ensures
        ((n as real) / (d as real)).floor() == n / d,
{
    let q = n / d;
    let r = n % d;
    assert(n == q * d + r && 0 <= r < d) by {
        vstd::arithmetic::div_mod::lemma_fundamental_div_mod(n, d);
    }
    let x = (n as real) / (d as real);
    assert(x * (d as real) == n as real) by (nonlinear_arith)
        requires
            x == (n as real) / (d as real),
            d > 0,
    ;
    assert((q as real) <= x && x < (q + 1) as real) by (nonlinear_arith)
        requires
            x * (d as real) == n as real,
            n == q * d + r,
            0 <= r < d,
            d > 0,
    ;
}

/// trunc_div on integers agrees with truncation of the real quotient (d > 0)
pub proof fn lemma_trunc_div_real(n: int, d: int)
    requires
        d > 0,
    ensures
        trunc_div(n, d) == trunc_real((n as real) / (d as real)),
{
    if n >= 0 {
        lemma_floor_div_nonneg(n, d);
        assert((n as real) / (d as real) >= 0real) by (nonlinear_arith)
            requires
                n >= 0,
                d > 0,
        ;
    } else {
        lemma_floor_div_nonneg(-n, d);
        let x = (n as real) / (d as real);
        assert(-x == ((-n) as real) / (d as real)) by (nonlinear_arith)
            requires
                x == (n as real) / (d as real),
                d > 0,
        ;
        assert(x < 0real) by (nonlinear_arith)
            requires
                x == (n as real) / (d as real),
                n < 0,
                d > 0,
        ;
    }
}
