// ---- shims/prelude.rs: helpers every unit uses (trusted: A-std, A-fmt) -----
use vstd::arithmetic::power::pow;
use vstd::arithmetic::div_mod::*;

// N6 targets
#[verifier::external_body]
pub fn vx_unreachable() -> !
    requires
        false,
{
    unreachable!()
}

pub fn vx_assert(c: bool)
    requires c,
{
}

#[verifier::external_body]
pub fn vx_fmt() -> (r: String) {
    String::new()
}

#[verifier::external_body]
pub fn vx_print() {
}

/// integer division truncating toward zero (what Rust and num-bigint `/` do)
pub open spec fn trunc_div(a: int, b: int) -> int {
    if a >= 0 {
        if b > 0 { a / b } else { -(a / (-b)) }
    } else {
        if b > 0 { -((-a) / b) } else { (-a) / (-b) }
    }
}

/// remainder with the sign of the dividend
pub open spec fn trunc_rem(a: int, b: int) -> int {
    a - b * trunc_div(a, b)
}

/// truncation toward zero of a real
pub open spec fn trunc_real(x: real) -> int {
    if x >= 0real { x.floor() } else { -((-x).floor()) }
}

pub open spec fn abs_real(x: real) -> real {
    if x >= 0real { x } else { -x }
}

pub open spec fn is_integral(x: real) -> bool {
    x == (x.floor() as real)
}

/// x^e for real x, natural e
pub open spec fn rpow(x: real, e: nat) -> real
    decreases e,
{
    if e == 0 { 1real } else { x * rpow(x, (e - 1) as nat) }
}

/// x^e for integer e (x != 0 when e < 0)
pub open spec fn rpowi(x: real, e: int) -> real {
    if e >= 0 { rpow(x, e as nat) } else { 1real / rpow(x, (-e) as nat) }
}

pub proof fn lemma_floor_div_nonneg(n: int, d: int)
    requires
        d > 0,
        n >= 0,
    ensures
        ((n as real) / (d as real)).floor() == n / d,
{
    let q = n / d;
    let r = n % d;
    assert(n == q * d + r && 0 <= r < d) by {
        vstd::arithmetic::div_mod::lemma_fundamental_div_mod(n, d);
    }
    let x = (n as real) / (d as real);
    assert(x * (d as real) == n as real) by (nonlinear_arith)
        requires
            x == (n as real) / (d as real),
            d > 0,
    ;
    assert((q as real) <= x && x < (q + 1) as real) by (nonlinear_arith)
        requires
            x * (d as real) == n as real,
            n == q * d + r,
            0 <= r < d,
            d > 0,
    ;
}

/// trunc_div on integers agrees with truncation of the real quotient (d > 0)
pub proof fn lemma_trunc_div_real(n: int, d: int)
    requires
        d > 0,
    ensures
        trunc_div(n, d) == trunc_real((n as real) / (d as real)),
{
    if n >= 0 {
        lemma_floor_div_nonneg(n, d);
        assert((n as real) / (d as real) >= 0real) by (nonlinear_arith)
            requires
                n >= 0,
                d > 0,
        ;
    } else {
        lemma_floor_div_nonneg(-n, d);
        let x = (n as real) / (d as real);
        assert(-x == ((-n) as real) / (d as real)) by (nonlinear_arith)
            requires
                x == (n as real) / (d as real),
                d > 0,
        ;
        assert(x < 0real) by (nonlinear_arith)
            requires
                x == (n as real) / (d as real),
                n < 0,
                d > 0,
        ;
    }
}

pub proof fn lemma_euc_neg_divisor(x: int, b: int)
    requires b < 0
    ensures x / b == -(x / (-b)), x % b == x % (-b)
{
    lemma_fundamental_div_mod(x, b);
    lemma_fundamental_div_mod(x, -b);
    let q1 = x / b; let r1 = x % b;
    assert(0 <= r1 < -b) by (nonlinear_arith) requires r1 == x % b, b < 0;
    assert(x == (-q1) * (-b) + r1) by (nonlinear_arith) requires x == b * q1 + r1;
    lemma_fundamental_div_mod_converse(x, -b, -q1, r1);
}

/// Rust's `/` and `%` on signed machine integers (vstd's rust_div / rust_rem) are truncated division
pub proof fn lemma_rust_div(a: int, b: int)
    requires b != 0
    ensures rust_div(a, b) == trunc_div(a, b), rust_rem(a, b) == trunc_rem(a, b), rust_rem(a, b) == 0 ==> rust_div(a, b) * b == a,
        a >= 0 ==> -a <= rust_div(a, b) <= a, a < 0 ==> a <= rust_div(a, b) <= -a, a >= 0 ==> -a <= rust_rem(a, b) <= a, a < 0 ==> a <= rust_rem(a, b) <= -a,
        (b != -1 || a > i64::MIN) && i64::MIN <= a <= i64::MAX ==> i64::MIN <= rust_div(a, b) <= i64::MAX
{
    let x = if a >= 0 { a } else { -a };
    lemma_fundamental_div_mod(x, b);
    if b < 0 { lemma_euc_neg_divisor(x, b); lemma_fundamental_div_mod(x, -b); }
    if a == 0 { lemma_div_of0(b); if b < 0 { lemma_div_of0(-b); } lemma_small_mod(0, if b > 0 { b as nat } else { (-b) as nat }); }
    let q = rust_div(a, b); let r = rust_rem(a, b);
    let bb = if b > 0 { b } else { -b };
    lemma_div_pos_is_pos(x, bb); lemma_div_is_ordered_by_denominator(x, 1, bb); lemma_div_basics(x); lemma_mod_bound(x, bb); lemma_fundamental_div_mod(x, bb);
    assert(0 <= x / bb <= x);
    assert(0 <= x % bb <= x) by (nonlinear_arith) requires x == bb * (x / bb) + x % bb, 0 <= x / bb, bb > 0, 0 <= x % bb < bb, x >= 0;
    assert(q == (if a >= 0 { x / b } else { -(x / b) }));
    assert(r == (if a >= 0 { x % b } else { -(x % b) }));
    assert(q == trunc_div(a, b));
    assert(a == b * q + r) by (nonlinear_arith)
        requires x == b * (x / b) + x % b, x == (if a >= 0 { a } else { -a }), q == (if a >= 0 { x / b } else { -(x / b) }), r == (if a >= 0 { x % b } else { -(x % b) });
    assert(r == 0 ==> q * b == a) by (nonlinear_arith) requires a == b * q + r;
    if a == i64::MIN && b != -1 && b != 1 {
        // |q| <= |a| / 2
        assert(x / bb <= x / 2) by { lemma_div_is_ordered_by_denominator(x, 2, bb); }
    }
}
