// ---- shims/bigint.rs: rink_core::types::BigInt as a mathematical integer ---
// Trusted (A-bigint): num-bigint implements exact integer arithmetic; `/`
// truncates toward zero, `%` has the sign of the dividend, both panic on a
// zero divisor; pow is the repeated product; to_i64 is Some iff in range.
#[verifier::external_body]
pub struct BigInt {
    inner: u8,
}

#[derive(Debug)]
pub enum BigIntError {
    ParseError,
}

impl View for BigInt {
    type V = int;

    uninterp spec fn view(&self) -> int;
}

pub uninterp spec fn int_and(a: int, b: int) -> int;

pub uninterp spec fn int_or(a: int, b: int) -> int;

pub uninterp spec fn int_xor(a: int, b: int) -> int;

/// the numeral of an integer in the given radix (what num-bigint's to_str_radix writes: lower-case digits, a leading `-`)
pub uninterp spec fn radix_text(i: int, radix: int) -> Seq<char>;

/// value of a digit string in the given radix, None if it is not one
pub uninterp spec fn radix_value(s: Seq<char>, radix: int) -> Option<int>;

impl BigInt {
    #[verifier::external_body]
    pub fn one() -> (r: BigInt)
        ensures
            r@ == 1,
    {
        unimplemented!()
    }

    #[verifier::external_body]
    pub fn zero() -> (r: BigInt)
        ensures
            r@ == 0,
    {
        unimplemented!()
    }

    #[verifier::external_body]
    pub fn from_str_radix(input: &str, base: u32) -> (r: Result<BigInt, BigIntError>)
        requires
            2 <= base <= 36,
        ensures
            r is Ok <==> radix_value(input@, base as int) is Some,
            r is Ok ==> r->Ok_0@ == radix_value(input@, base as int)->Some_0,
    {
        unimplemented!()
    }

    #[verifier::external_body]
    pub fn pow(&self, exponent: u32) -> (r: BigInt)
        ensures
            r@ == pow(self@, exponent as nat),
    {
        unimplemented!()
    }

    /// the digits of the value in the given base (proved over num-bigint in unit bigwrap)
    #[verifier::external_body]
    pub fn to_str_radix(&self, base: u8) -> (r: String)
        requires
            2 <= base <= 36,
        ensures
            r@ == radix_text(self@, base as int),
    {
        unimplemented!()
    }

    #[verifier::external_body]
    pub fn as_int(&self) -> (r: Option<i64>)
        ensures
            (i64::MIN <= self@ <= i64::MAX) ==> r == Some(self@ as i64),
            !(i64::MIN <= self@ <= i64::MAX) ==> r is None,
    {
        unimplemented!()
    }

    #[verifier::external_body]
    pub fn abs(&self) -> (r: BigInt)
        ensures
            r@ == (if self@ >= 0 { self@ } else { -self@ }),
    {
        unimplemented!()
    }

    /// A-float-log: 1 + floor(bits * ln 2 / ln base) computed in f64 is an over-estimate of the number of digits of a
    /// non-negative value, by at most two
    #[verifier::external_body]
    pub fn size_in_base(&self, base: u8) -> (r: usize)
        requires
            base >= 2,
        ensures
            r >= 1,
            self@ >= 0 ==> vstd::arithmetic::power::pow(base as int, r as nat) > self@,
            self@ >= 0 && r > 3 ==> vstd::arithmetic::power::pow(base as int, (r - 3) as nat) <= self@,
    {
        unimplemented!()
    }
}

impl From<u64> for BigInt {
    #[verifier::external_body]
    fn from(value: u64) -> (r: BigInt)
        ensures
            r@ == value as int,
    {
        unimplemented!()
    }
}

impl From<i64> for BigInt {
    #[verifier::external_body]
    fn from(value: i64) -> (r: BigInt)
        ensures
            r@ == value as int,
    {
        unimplemented!()
    }
}

impl From<i32> for BigInt {
    #[verifier::external_body]
    fn from(value: i32) -> (r: BigInt)
        ensures
            r@ == value as int,
    {
        unimplemented!()
    }
}

impl vstd::std_specs::cmp::PartialEqSpecImpl for BigInt {
    open spec fn obeys_eq_spec() -> bool {
        true
    }

    open spec fn eq_spec(&self, other: &BigInt) -> bool {
        self@ == other@
    }
}

impl PartialEq for BigInt {
    #[verifier::external_body]
    fn eq(&self, other: &BigInt) -> (r: bool)
    {
        unimplemented!()
    }
}

impl Eq for BigInt {

}

impl vstd::std_specs::cmp::PartialOrdSpecImpl for BigInt {
    open spec fn obeys_partial_cmp_spec() -> bool {
        true
    }

    open spec fn partial_cmp_spec(&self, other: &BigInt) -> Option<core::cmp::Ordering> {
        if self@ < other@ {
            Some(core::cmp::Ordering::Less)
        } else if self@ == other@ {
            Some(core::cmp::Ordering::Equal)
        } else {
            Some(core::cmp::Ordering::Greater)
        }
    }
}

impl PartialOrd for BigInt {
    #[verifier::external_body]
    fn partial_cmp(&self, other: &BigInt) -> (r: Option<core::cmp::Ordering>)
    {
        unimplemented!()
    }
}

/// value of a decimal digit string
pub open spec fn dec_value(s: Seq<char>) -> nat
    decreases s.len(),
{
    if s.len() == 0 {
        0
    } else {
        dec_value(s.drop_last()) * 10 + ((s.last() as u32 - '0' as u32) as nat)
    }
}

/// from_str_radix accepts every non-empty string of decimal digits and returns its value (trusted, A-bigint)
pub broadcast axiom fn axiom_radix_value_dec(s: Seq<char>)
    ensures
        s.len() > 0 && (forall|i: int| 0 <= i < s.len() ==> '0' <= (#[trigger] s[i]) <= '9') ==> #[trigger] radix_value(s, 10) == Some(dec_value(s) as int),
;

/// from_str_radix accepts every non-empty string of digits of the radix (trusted, A-bigint)
pub broadcast axiom fn axiom_radix_value_hex(s: Seq<char>)
    ensures
        s.len() > 0 && (forall|i: int| 0 <= i < s.len() ==> (('0' <= (#[trigger] s[i]) <= '9') || ('a' <= s[i] <= 'f') || ('A' <= s[i] <= 'F'))) ==> (#[trigger] radix_value(s, 16)) is Some,
        s.len() > 0 && (forall|i: int| 0 <= i < s.len() ==> '0' <= (#[trigger] s[i]) <= '7') ==> (#[trigger] radix_value(s, 8)) is Some,
        s.len() > 0 && (forall|i: int| 0 <= i < s.len() ==> ((#[trigger] s[i]) == '0' || s[i] == '1')) ==> (#[trigger] radix_value(s, 2)) is Some,
;
