// generated (see shims/gen_ops.py): operator contracts of the library layer

impl<'a, 'b> vstd::std_specs::ops::AddSpecImpl<&'b NumInt> for &'a NumInt {
    open spec fn obeys_add_spec() -> bool {
        false
    }

    open spec fn add_req(self, rhs: &'b NumInt) -> bool {
        true
    }

    open spec fn add_spec(self, rhs: &'b NumInt) -> NumInt {
        arbitrary()
    }
}

impl<'a, 'b> Add<&'b NumInt> for &'a NumInt {
    type Output = NumInt;

    #[verifier::external_body]
    fn add(self, rhs: &'b NumInt) -> (r: NumInt)
        ensures
            r@ == self@ + rhs@,
    {
        unimplemented!()
    }
}

impl<'a, 'b> vstd::std_specs::ops::SubSpecImpl<&'b NumInt> for &'a NumInt {
    open spec fn obeys_sub_spec() -> bool {
        false
    }

    open spec fn sub_req(self, rhs: &'b NumInt) -> bool {
        true
    }

    open spec fn sub_spec(self, rhs: &'b NumInt) -> NumInt {
        arbitrary()
    }
}

impl<'a, 'b> Sub<&'b NumInt> for &'a NumInt {
    type Output = NumInt;

    #[verifier::external_body]
    fn sub(self, rhs: &'b NumInt) -> (r: NumInt)
        ensures
            r@ == self@ - rhs@,
    {
        unimplemented!()
    }
}

impl<'a, 'b> vstd::std_specs::ops::MulSpecImpl<&'b NumInt> for &'a NumInt {
    open spec fn obeys_mul_spec() -> bool {
        false
    }

    open spec fn mul_req(self, rhs: &'b NumInt) -> bool {
        true
    }

    open spec fn mul_spec(self, rhs: &'b NumInt) -> NumInt {
        arbitrary()
    }
}

impl<'a, 'b> Mul<&'b NumInt> for &'a NumInt {
    type Output = NumInt;

    #[verifier::external_body]
    fn mul(self, rhs: &'b NumInt) -> (r: NumInt)
        ensures
            r@ == self@ * rhs@,
    {
        unimplemented!()
    }
}

impl<'a, 'b> vstd::std_specs::ops::DivSpecImpl<&'b NumInt> for &'a NumInt {
    open spec fn obeys_div_spec() -> bool {
        false
    }

    open spec fn div_req(self, rhs: &'b NumInt) -> bool {
        rhs@ != 0
    }

    open spec fn div_spec(self, rhs: &'b NumInt) -> NumInt {
        arbitrary()
    }
}

impl<'a, 'b> Div<&'b NumInt> for &'a NumInt {
    type Output = NumInt;

    #[verifier::external_body]
    fn div(self, rhs: &'b NumInt) -> (r: NumInt)
        ensures
            r@ == trunc_div(self@, rhs@),
    {
        unimplemented!()
    }
}

impl<'a, 'b> vstd::std_specs::ops::RemSpecImpl<&'b NumInt> for &'a NumInt {
    open spec fn obeys_rem_spec() -> bool {
        false
    }

    open spec fn rem_req(self, rhs: &'b NumInt) -> bool {
        rhs@ != 0
    }

    open spec fn rem_spec(self, rhs: &'b NumInt) -> NumInt {
        arbitrary()
    }
}

impl<'a, 'b> Rem<&'b NumInt> for &'a NumInt {
    type Output = NumInt;

    #[verifier::external_body]
    fn rem(self, rhs: &'b NumInt) -> (r: NumInt)
        ensures
            r@ == trunc_rem(self@, rhs@),
    {
        unimplemented!()
    }
}

impl<'a, 'b> vstd::std_specs::ops::BitAndSpecImpl<&'b NumInt> for &'a NumInt {
    open spec fn obeys_bitand_spec() -> bool {
        false
    }

    open spec fn bitand_req(self, rhs: &'b NumInt) -> bool {
        true
    }

    open spec fn bitand_spec(self, rhs: &'b NumInt) -> NumInt {
        arbitrary()
    }
}

impl<'a, 'b> BitAnd<&'b NumInt> for &'a NumInt {
    type Output = NumInt;

    #[verifier::external_body]
    fn bitand(self, rhs: &'b NumInt) -> (r: NumInt)
        ensures
            r@ == int_and(self@, rhs@),
    {
        unimplemented!()
    }
}

impl<'a, 'b> vstd::std_specs::ops::BitOrSpecImpl<&'b NumInt> for &'a NumInt {
    open spec fn obeys_bitor_spec() -> bool {
        false
    }

    open spec fn bitor_req(self, rhs: &'b NumInt) -> bool {
        true
    }

    open spec fn bitor_spec(self, rhs: &'b NumInt) -> NumInt {
        arbitrary()
    }
}

impl<'a, 'b> BitOr<&'b NumInt> for &'a NumInt {
    type Output = NumInt;

    #[verifier::external_body]
    fn bitor(self, rhs: &'b NumInt) -> (r: NumInt)
        ensures
            r@ == int_or(self@, rhs@),
    {
        unimplemented!()
    }
}

impl<'a, 'b> vstd::std_specs::ops::BitXorSpecImpl<&'b NumInt> for &'a NumInt {
    open spec fn obeys_bitxor_spec() -> bool {
        false
    }

    open spec fn bitxor_req(self, rhs: &'b NumInt) -> bool {
        true
    }

    open spec fn bitxor_spec(self, rhs: &'b NumInt) -> NumInt {
        arbitrary()
    }
}

impl<'a, 'b> BitXor<&'b NumInt> for &'a NumInt {
    type Output = NumInt;

    #[verifier::external_body]
    fn bitxor(self, rhs: &'b NumInt) -> (r: NumInt)
        ensures
            r@ == int_xor(self@, rhs@),
    {
        unimplemented!()
    }
}

impl<'a, 'b> vstd::std_specs::ops::AddSpecImpl<&'b NumRat> for &'a NumRat {
    open spec fn obeys_add_spec() -> bool {
        false
    }

    open spec fn add_req(self, rhs: &'b NumRat) -> bool {
        true
    }

    open spec fn add_spec(self, rhs: &'b NumRat) -> NumRat {
        arbitrary()
    }
}

impl<'a, 'b> Add<&'b NumRat> for &'a NumRat {
    type Output = NumRat;

    #[verifier::external_body]
    fn add(self, rhs: &'b NumRat) -> (r: NumRat)
        ensures
            r@ == self@ + rhs@,
            r.reduced(),
    {
        unimplemented!()
    }
}

impl<'a, 'b> vstd::std_specs::ops::SubSpecImpl<&'b NumRat> for &'a NumRat {
    open spec fn obeys_sub_spec() -> bool {
        false
    }

    open spec fn sub_req(self, rhs: &'b NumRat) -> bool {
        true
    }

    open spec fn sub_spec(self, rhs: &'b NumRat) -> NumRat {
        arbitrary()
    }
}

impl<'a, 'b> Sub<&'b NumRat> for &'a NumRat {
    type Output = NumRat;

    #[verifier::external_body]
    fn sub(self, rhs: &'b NumRat) -> (r: NumRat)
        ensures
            r@ == self@ - rhs@,
            r.reduced(),
    {
        unimplemented!()
    }
}

impl<'a, 'b> vstd::std_specs::ops::MulSpecImpl<&'b NumRat> for &'a NumRat {
    open spec fn obeys_mul_spec() -> bool {
        false
    }

    open spec fn mul_req(self, rhs: &'b NumRat) -> bool {
        true
    }

    open spec fn mul_spec(self, rhs: &'b NumRat) -> NumRat {
        arbitrary()
    }
}

impl<'a, 'b> Mul<&'b NumRat> for &'a NumRat {
    type Output = NumRat;

    #[verifier::external_body]
    fn mul(self, rhs: &'b NumRat) -> (r: NumRat)
        ensures
            r@ == self@ * rhs@,
            r.reduced(),
    {
        unimplemented!()
    }
}

impl<'a, 'b> vstd::std_specs::ops::DivSpecImpl<&'b NumRat> for &'a NumRat {
    open spec fn obeys_div_spec() -> bool {
        false
    }

    open spec fn div_req(self, rhs: &'b NumRat) -> bool {
        rhs@ != 0real
    }

    open spec fn div_spec(self, rhs: &'b NumRat) -> NumRat {
        arbitrary()
    }
}

impl<'a, 'b> Div<&'b NumRat> for &'a NumRat {
    type Output = NumRat;

    #[verifier::external_body]
    fn div(self, rhs: &'b NumRat) -> (r: NumRat)
        ensures
            r@ == self@ / rhs@,
            r.reduced(),
    {
        unimplemented!()
    }
}

impl<'a, 'b> vstd::std_specs::ops::RemSpecImpl<&'b NumRat> for &'a NumRat {
    open spec fn obeys_rem_spec() -> bool {
        false
    }

    open spec fn rem_req(self, rhs: &'b NumRat) -> bool {
        rhs@ != 0real
    }

    open spec fn rem_spec(self, rhs: &'b NumRat) -> NumRat {
        arbitrary()
    }
}

impl<'a, 'b> Rem<&'b NumRat> for &'a NumRat {
    type Output = NumRat;

    #[verifier::external_body]
    fn rem(self, rhs: &'b NumRat) -> (r: NumRat)
        ensures
            r@ == self@ - rhs@ * (trunc_real(self@ / rhs@) as real),
            r.reduced(),
    {
        unimplemented!()
    }
}
