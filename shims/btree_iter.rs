// the name dimensionality.rs imports for btree_map::Iter (A-btree: an eager vector of the entries in key order)
pub type Iter<'a, K, V> = Vec<(&'a K, &'a V)>;
