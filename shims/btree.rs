// ---- shims/btree.rs: std::collections::BTreeMap as a finite map (A-btree) ---
// View: IMap<K, V> keyed by the key value itself. Iteration hands out the
// entries in strictly increasing key order (`vx_lt`, the order `Ord for K`
// implements) as a Vec snapshot. `vx_entries(m)` is the canonical sorted
// entry sequence of a map; each method that exposes it also states that it
// is sorted and holds exactly the entries of the map (no global axiom).
pub uninterp spec fn vx_lt<K>(a: K, b: K) -> bool;

pub broadcast axiom fn axiom_vx_lt_asym<K>(a: K, b: K)
    ensures
        #[trigger] vx_lt(a, b) ==> a != b && !vx_lt(b, a),
;

pub broadcast axiom fn axiom_vx_lt_total<K>(a: K, b: K)
    ensures
        #[trigger] vx_lt(a, b) || a == b || vx_lt(b, a),
;

pub broadcast axiom fn axiom_vx_lt_trans<K>(a: K, b: K, c: K)
    ensures
        #[trigger] vx_lt(a, b) && #[trigger] vx_lt(b, c) ==> vx_lt(a, c),
;

pub broadcast group group_vx_lt {
    axiom_vx_lt_asym,
    axiom_vx_lt_total,
    axiom_vx_lt_trans,
}

pub uninterp spec fn vx_entries<K, V>(m: IMap<K, V>) -> Seq<(K, V)>;

/// s is sorted by key and holds exactly the entries of m
pub open spec fn entries_of<K, V>(s: Seq<(K, V)>, m: IMap<K, V>) -> bool {
    &&& forall|i: int, j: int| 0 <= i < j < s.len() ==> vx_lt(#[trigger] s[i].0, #[trigger] s[j].0)
    &&& forall|i: int| 0 <= i < s.len() ==> m.contains_key(#[trigger] s[i].0) && m[s[i].0] == s[i].1
    &&& forall|k: K| #[trigger] m.contains_key(k) ==> exists|i: int| 0 <= i < s.len() && #[trigger] s[i].0 == k
}

pub open spec fn deref_pairs<'a, K, V>(s: Seq<(&'a K, &'a V)>) -> Seq<(K, V)> {
    s.map_values(|p: (&'a K, &'a V)| (*p.0, *p.1))
}

#[verifier::external_body]
#[verifier::reject_recursive_types(K)]
#[verifier::reject_recursive_types(V)]
pub struct BTreeMap<K, V> {
    k: core::marker::PhantomData<(K, V)>,
}

impl<K, V> View for BTreeMap<K, V> {
    type V = IMap<K, V>;

    uninterp spec fn view(&self) -> IMap<K, V>;
}

/// btree_map::Iter (what `.iter()` returns): a Vec snapshot of the entries
pub type Iter<'a, K, V> = Vec<(&'a K, &'a V)>;

/// btree_map::IntoIter
pub type IntoIter<K, V> = Vec<(K, V)>;

impl<K, V> BTreeMap<K, V> {
    #[verifier::external_body]
    pub fn new() -> (r: BTreeMap<K, V>)
        ensures
            r@ == IMap::<K, V>::empty(),
            vx_entries(r@) == Seq::<(K, V)>::empty(),
    {
        unimplemented!()
    }

    #[verifier::external_body]
    pub fn insert(&mut self, key: K, value: V) -> (r: Option<V>)
        ensures
            final(self)@ == old(self)@.insert(key, value),
            old(self)@.contains_key(key) ==> r == Some(old(self)@[key]),
            !old(self)@.contains_key(key) ==> r is None,
    {
        unimplemented!()
    }

    #[verifier::external_body]
    pub fn get(&self, key: &K) -> (r: Option<&V>)
        ensures
            self@.contains_key(*key) ==> r == Some(&self@[*key]),
            !self@.contains_key(*key) ==> r is None,
    {
        unimplemented!()
    }

    #[verifier::external_body]
    pub fn contains_key(&self, key: &K) -> (r: bool)
        ensures
            r == self@.contains_key(*key),
    {
        unimplemented!()
    }

    #[verifier::external_body]
    pub fn remove(&mut self, key: &K) -> (r: Option<V>)
        ensures
            final(self)@ == old(self)@.remove(*key),
            old(self)@.contains_key(*key) ==> r == Some(old(self)@[*key]),
            !old(self)@.contains_key(*key) ==> r is None,
    {
        unimplemented!()
    }

    #[verifier::external_body]
    pub fn len(&self) -> (r: usize)
        ensures
            r == vx_entries(self@).len(),
            entries_of(vx_entries(self@), self@),
    {
        unimplemented!()
    }

    #[verifier::external_body]
    pub fn is_empty(&self) -> (r: bool)
        ensures
            r == (vx_entries(self@).len() == 0),
            r == (self@ == IMap::<K, V>::empty()),
            entries_of(vx_entries(self@), self@),
    {
        unimplemented!()
    }

    #[verifier::external_body]
    pub fn iter<'a>(&'a self) -> (r: Iter<'a, K, V>)
        ensures
            deref_pairs(r@) == vx_entries(self@),
            entries_of(vx_entries(self@), self@),
    {
        unimplemented!()
    }

    #[verifier::external_body]
    pub fn into_iter(self) -> (r: IntoIter<K, V>)
        ensures
            r@ == vx_entries(self@),
            entries_of(vx_entries(self@), self@),
    {
        unimplemented!()
    }
}

/// the map obtained by inserting the pairs of s from left to right (last wins)
pub open spec fn map_of_seq<K, V>(s: Seq<(K, V)>) -> IMap<K, V>
    decreases s.len(),
{
    if s.len() == 0 {
        IMap::empty()
    } else {
        map_of_seq(s.drop_last()).insert(s.last().0, s.last().1)
    }
}

impl<K, V> BTreeMap<K, V> {
    /// FromIterator: successive insert
    #[verifier::external_body]
    pub fn from_iter(iter: Vec<(K, V)>) -> (r: BTreeMap<K, V>)
        ensures
            r@ == map_of_seq(iter@),
    {
        unimplemented!()
    }
}

impl<K: Clone, V: Clone> Clone for BTreeMap<K, V> {
    #[verifier::external_body]
    fn clone(&self) -> (r: BTreeMap<K, V>)
        ensures
            r@ == self@,
    {
        unimplemented!()
    }
}

impl<K, V> vstd::std_specs::cmp::PartialEqSpecImpl for BTreeMap<K, V> {
    open spec fn obeys_eq_spec() -> bool {
        true
    }

    open spec fn eq_spec(&self, other: &BTreeMap<K, V>) -> bool {
        self@ == other@
    }
}

impl<K, V> PartialEq for BTreeMap<K, V> {
    #[verifier::external_body]
    fn eq(&self, other: &BTreeMap<K, V>) -> (r: bool)
    {
        unimplemented!()
    }
}
