// ---- shims/btree.rs: std::collections::BTreeMap as a finite map (A-btree) ---
// View: IMap<K, V> keyed by the key value itself. Iteration hands out the
// entries in strictly increasing key order (`vx_lt`, the order `Ord for K`
// implements) as a Vec snapshot. `vx_entries(m)` is the canonical sorted
// entry sequence of a map; each method that exposes it also states that it
// is sorted and holds exactly the entries of the map (no global axiom).
pub uninterp spec fn vx_lt<K>(a: K, b: K) -> bool;

pub broadcast axiom fn axiom_vx_lt_asym<K>(a: K, b: K)
    ensures
        #[trigger] vx_lt(a, b) ==> a != b && !vx_lt(b, a),
;

pub broadcast axiom fn axiom_vx_lt_total<K>(a: K, b: K)
    ensures
        #[trigger] vx_lt(a, b) || a == b || vx_lt(b, a),
;

pub broadcast axiom fn axiom_vx_lt_trans<K>(a: K, b: K, c: K)
    ensures
        #[trigger] vx_lt(a, b) && #[trigger] vx_lt(b, c) ==> vx_lt(a, c),
;

pub broadcast group group_vx_lt {
    axiom_vx_lt_asym,
    axiom_vx_lt_total,
    axiom_vx_lt_trans,
}

pub uninterp spec fn vx_entries<K, V>(m: IMap<K, V>) -> Seq<(K, V)>;

/// s is sorted by key and holds exactly the entries of m
pub open spec fn entries_of<K, V>(s: Seq<(K, V)>, m: IMap<K, V>) -> bool {
    &&& forall|i: int, j: int| 0 <= i < j < s.len() ==> vx_lt(#[trigger] s[i].0, #[trigger] s[j].0)
    &&& forall|i: int| 0 <= i < s.len() ==> m.contains_key(#[trigger] s[i].0) && m[s[i].0] == s[i].1
    &&& forall|k: K| #[trigger] m.contains_key(k) ==> exists|i: int| 0 <= i < s.len() && #[trigger] s[i].0 == k
}

/// entries_of, stated directly on the snapshot of references that `.iter()` returns
pub open spec fn ref_entries_of<'a, K, V>(s: Seq<(&'a K, &'a V)>, m: IMap<K, V>) -> bool {
    &&& forall|i: int, j: int| 0 <= i < j < s.len() ==> vx_lt(*#[trigger] s[i].0, *#[trigger] s[j].0)
    &&& forall|i: int| #![trigger s[i]] 0 <= i < s.len() ==> m.contains_key(*s[i].0) && m[*s[i].0] == *s[i].1
    &&& forall|k: K| #[trigger] m.contains_key(k) ==> exists|i: int| 0 <= i < s.len() && *#[trigger] s[i].0 == k
}

pub open spec fn deref_pairs<'a, K, V>(s: Seq<(&'a K, &'a V)>) -> Seq<(K, V)> {
    s.map_values(|p: (&'a K, &'a V)| (*p.0, *p.1))
}

#[verifier::external_body]
#[verifier::reject_recursive_types(K)]
#[verifier::reject_recursive_types(V)]
pub struct BTreeMap<K, V> {
    k: core::marker::PhantomData<(K, V)>,
}

impl<K, V> View for BTreeMap<K, V> {
    type V = IMap<K, V>;

    uninterp spec fn view(&self) -> IMap<K, V>;
}

/// btree_map::Iter (what `.iter()` returns): a Vec snapshot of the entries

/// btree_map::IntoIter
pub type IntoIter<K, V> = Vec<(K, V)>;

impl<K, V> BTreeMap<K, V> {
    #[verifier::external_body]
    pub fn new() -> (r: BTreeMap<K, V>)
        ensures
            r@ == IMap::<K, V>::empty(),
            vx_entries(r@) == Seq::<(K, V)>::empty(),
    {
        unimplemented!()
    }

    #[verifier::external_body]
    pub fn insert(&mut self, key: K, value: V) -> (r: Option<V>)
        ensures
            final(self)@ == old(self)@.insert(key, value),
            old(self)@.contains_key(key) ==> r == Some(old(self)@[key]),
            !old(self)@.contains_key(key) ==> r is None,
    {
        unimplemented!()
    }

    #[verifier::external_body]
    pub fn get(&self, key: &K) -> (r: Option<&V>)
        ensures
            self@.contains_key(*key) ==> r == Some(&self@[*key]),
            !self@.contains_key(*key) ==> r is None,
    {
        unimplemented!()
    }

    #[verifier::external_body]
    pub fn contains_key(&self, key: &K) -> (r: bool)
        ensures
            r == self@.contains_key(*key),
    {
        unimplemented!()
    }

    #[verifier::external_body]
    pub fn remove(&mut self, key: &K) -> (r: Option<V>)
        ensures
            final(self)@ == old(self)@.remove(*key),
            old(self)@.contains_key(*key) ==> r == Some(old(self)@[*key]),
            !old(self)@.contains_key(*key) ==> r is None,
    {
        unimplemented!()
    }

    #[verifier::external_body]
    pub fn len(&self) -> (r: usize)
        ensures
            r == vx_entries(self@).len(),
            entries_of(vx_entries(self@), self@),
    {
        unimplemented!()
    }

    #[verifier::external_body]
    pub fn is_empty(&self) -> (r: bool)
        ensures
            r == (vx_entries(self@).len() == 0),
            r == (self@ == IMap::<K, V>::empty()),
            entries_of(vx_entries(self@), self@),
    {
        unimplemented!()
    }

    #[verifier::external_body]
    pub fn iter<'a>(&'a self) -> (r: Vec<(&'a K, &'a V)>)
        ensures
            deref_pairs(r@) == vx_entries(self@),
            entries_of(vx_entries(self@), self@),
            ref_entries_of(r@, self@),
    {
        unimplemented!()
    }

    /// `.values()`: the values in key order (an eager snapshot of references)
    #[verifier::external_body]
    pub fn values<'a>(&'a self) -> (r: Vec<&'a V>)
        ensures
            r@.len() == vx_entries(self@).len(),
            forall|i: int| 0 <= i < r@.len() ==> *(#[trigger] r@[i]) == vx_entries(self@)[i].1,
            entries_of(vx_entries(self@), self@),
    {
        unimplemented!()
    }

    /// `.keys()`: the keys in order (an eager snapshot of references)
    #[verifier::external_body]
    pub fn keys<'a>(&'a self) -> (r: Vec<&'a K>)
        ensures
            r@.len() == vx_entries(self@).len(),
            forall|i: int| 0 <= i < r@.len() ==> *(#[trigger] r@[i]) == vx_entries(self@)[i].0,
            entries_of(vx_entries(self@), self@),
    {
        unimplemented!()
    }

    #[verifier::external_body]
    pub fn into_iter(self) -> (r: IntoIter<K, V>)
        ensures
            r@ == vx_entries(self@),
            entries_of(vx_entries(self@), self@),
    {
        unimplemented!()
    }
}

/// the map obtained by inserting the pairs of s from left to right (last wins)
pub open spec fn map_of_seq<K, V>(s: Seq<(K, V)>) -> IMap<K, V>
    decreases s.len(),
{
    if s.len() == 0 {
        IMap::empty()
    } else {
        map_of_seq(s.drop_last()).insert(s.last().0, s.last().1)
    }
}

impl<K, V> BTreeMap<K, V> {
    /// FromIterator: successive insert
    #[verifier::external_body]
    pub fn from_iter(iter: Vec<(K, V)>) -> (r: BTreeMap<K, V>)
        ensures
            r@ == map_of_seq(iter@),
    {
        unimplemented!()
    }
}

impl<K: Clone, V: Clone> Clone for BTreeMap<K, V> {
    #[verifier::external_body]
    fn clone(&self) -> (r: BTreeMap<K, V>)
        ensures
            r@ == self@,
    {
        unimplemented!()
    }
}

impl<K, V> vstd::std_specs::cmp::PartialEqSpecImpl for BTreeMap<K, V> {
    open spec fn obeys_eq_spec() -> bool {
        true
    }

    open spec fn eq_spec(&self, other: &BTreeMap<K, V>) -> bool {
        self@ == other@
    }
}

impl<K, V> PartialEq for BTreeMap<K, V> {
    #[verifier::external_body]
    fn eq(&self, other: &BTreeMap<K, V>) -> (r: bool)
    {
        unimplemented!()
    }
}

/// keys of map_of_seq are exactly the first components of the sequence
pub open spec fn seq_has_key<K, V>(s: Seq<(K, V)>, k: K) -> bool {
    exists|i: int| 0 <= i < s.len() && #[trigger] s[i].0 == k
}

pub proof fn lemma_map_of_seq_key<K, V>(s: Seq<(K, V)>, k: K)
    ensures
        map_of_seq(s).contains_key(k) <==> seq_has_key(s, k),
    decreases s.len(),
{
    if s.len() > 0 {
        let t = s.drop_last();
        lemma_map_of_seq_key(t, k);
        assert(map_of_seq(s) == map_of_seq(t).insert(s.last().0, s.last().1));
        if map_of_seq(s).contains_key(k) {
            if k == s.last().0 {
                assert(s[s.len() - 1].0 == k);
            } else {
                assert(map_of_seq(t).contains_key(k));
                assert(seq_has_key(t, k));
                let i = choose|i: int| 0 <= i < t.len() && #[trigger] t[i].0 == k;
                assert(t[i] == s[i]);
                assert(s[i].0 == k);
            }
        }
        if seq_has_key(s, k) {
            let i = choose|i: int| 0 <= i < s.len() && #[trigger] s[i].0 == k;
            if i < s.len() - 1 {
                assert(t[i] == s[i]);
                assert(t[i].0 == k);
                assert(seq_has_key(t, k));
            } else {
                assert(k == s.last().0);
            }
        }
    } else {
        assert(map_of_seq(s) == IMap::<K, V>::empty());
        assert(!map_of_seq(s).contains_key(k));
    }
}

pub proof fn lemma_map_of_seq_keys<K, V>(s: Seq<(K, V)>)
    ensures
        forall|k: K| #[trigger] map_of_seq(s).contains_key(k) <==> seq_has_key(s, k),
{
    assert forall|k: K| #[trigger] map_of_seq(s).contains_key(k) <==> seq_has_key(s, k) by {
        lemma_map_of_seq_key(s, k);
    }
}

/// with pairwise distinct keys, map_of_seq holds every pair of the sequence
pub proof fn lemma_map_of_seq_distinct<K, V>(s: Seq<(K, V)>)
    requires
        forall|i: int, j: int| 0 <= i < j < s.len() ==> #[trigger] s[i].0 != #[trigger] s[j].0,
    ensures
        forall|i: int| 0 <= i < s.len() ==> map_of_seq(s).contains_key(#[trigger] s[i].0) && map_of_seq(s)[s[i].0] == s[i].1,
    decreases s.len(),
{
    if s.len() > 0 {
        let t = s.drop_last();
        lemma_map_of_seq_distinct(t);
        assert forall|i: int| 0 <= i < s.len() implies map_of_seq(s).contains_key(#[trigger] s[i].0) && map_of_seq(s)[s[i].0] == s[i].1 by {
            if i < s.len() - 1 {
                assert(t[i] == s[i]);
                assert(s[i].0 != s[s.len() - 1].0);
            }
        }
    }
}

/// a sequence that keeps the keys of the sorted entries of m, in order, builds a map with the same keys
pub proof fn lemma_mapped_entries<K, V>(e: Seq<(K, V)>, m: IMap<K, V>, ms: Seq<(K, V)>)
    requires
        entries_of(e, m),
        ms.len() == e.len(),
        forall|i: int| 0 <= i < e.len() ==> #[trigger] ms[i].0 == e[i].0,
    ensures
        forall|k: K| #[trigger] map_of_seq(ms).contains_key(k) <==> m.contains_key(k),
        forall|i: int| 0 <= i < e.len() ==> map_of_seq(ms).contains_key(#[trigger] e[i].0) && map_of_seq(ms)[e[i].0] == ms[i].1,
{
    broadcast use group_vx_lt;
    lemma_map_of_seq_keys(ms);
    assert forall|i: int, j: int| 0 <= i < j < ms.len() implies #[trigger] ms[i].0 != #[trigger] ms[j].0 by {
        assert(vx_lt(e[i].0, e[j].0));
    }
    lemma_map_of_seq_distinct(ms);
    assert forall|k: K| #[trigger] map_of_seq(ms).contains_key(k) <==> m.contains_key(k) by {
        if map_of_seq(ms).contains_key(k) {
            assert(seq_has_key(ms, k));
            let i = choose|i: int| 0 <= i < ms.len() && #[trigger] ms[i].0 == k;
            assert(e[i].0 == k);
        }
        if m.contains_key(k) {
            let i = choose|i: int| 0 <= i < e.len() && #[trigger] e[i].0 == k;
            assert(ms[i].0 == k);
            assert(seq_has_key(ms, k));
        }
    }
    assert forall|i: int| 0 <= i < e.len() implies map_of_seq(ms).contains_key(#[trigger] e[i].0) && map_of_seq(ms)[e[i].0] == ms[i].1 by {
        assert(ms[i].0 == e[i].0);
    }
}

/// `for (k, v) in &map`
impl<'a, K, V> IntoIterator for &'a BTreeMap<K, V> {
    type Item = (&'a K, &'a V);

    type IntoIter = std::vec::IntoIter<(&'a K, &'a V)>;

    fn into_iter(self) -> (r: std::vec::IntoIter<(&'a K, &'a V)>)
        ensures
            deref_pairs(vstd::std_specs::iter::IteratorSpec::remaining(&r)) == vx_entries(self@),
            entries_of(vx_entries(self@), self@),
            ref_entries_of(vstd::std_specs::iter::IteratorSpec::remaining(&r), self@),
    {
        self.iter().into_iter()
    }
}
