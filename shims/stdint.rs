// ---- shims/stdint.rs: std integer methods without a vstd spec (A-std) -------
pub assume_specification[ i32::unsigned_abs ](x: i32) -> (r: u32)
    ensures
        r as int == (if x >= 0 { x as int } else { -(x as int) }),
;

pub assume_specification[ i64::unsigned_abs ](x: i64) -> (r: u64)
    ensures
        r as int == (if x >= 0 { x as int } else { -(x as int) }),
;

pub assume_specification[ i32::abs ](x: i32) -> (r: i32)
    requires
        x > i32::MIN,
    ensures
        r as int == (if x >= 0 { x as int } else { -(x as int) }),
;

pub assume_specification[ i64::abs ](x: i64) -> (r: i64)
    requires
        x > i64::MIN,
    ensures
        r as int == (if x >= 0 { x as int } else { -(x as int) }),
;

pub assume_specification[ i32::saturating_add ](x: i32, y: i32) -> (r: i32)
    ensures
        r as int == (if x + y > i32::MAX { i32::MAX as int } else if x + y < i32::MIN { i32::MIN as int } else { x + y }),
;

pub assume_specification[ i64::pow ](x: i64, e: u32) -> (r: i64)
    requires
        i64::MIN <= vstd::arithmetic::power::pow(x as int, e as nat) <= i64::MAX,
    ensures
        r as int == vstd::arithmetic::power::pow(x as int, e as nat),
;
