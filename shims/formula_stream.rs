// ---- shims/formula_stream.rs: Peekable over the formula lexer (A-stream) ----
// `toks()` is the sequence of tokens still to come: lex_all of the characters the wrapped lexer has
// not consumed (lex_one is the contract proved for TokenIterator::next in this unit); peek() looks at
// its head, next() removes it, both return None at the end. Trusted: std::iter::Peekable.
impl<'a> Peekable<TokenIterator<'a>> {
    pub uninterp spec fn toks(&self) -> Seq<Token>;

    #[verifier::external_body]
    pub fn peek(&mut self) -> (r: Option<&Token>)
        ensures
            final(self).toks() == old(self).toks(),
            old(self).toks().len() == 0 ==> r is None,
            old(self).toks().len() > 0 ==> r == Some(&old(self).toks()[0]),
    {
        unimplemented!()
    }

    #[verifier::external_body]
    pub fn next(&mut self) -> (r: Option<Token>)
        ensures
            old(self).toks().len() == 0 ==> r is None && final(self).toks() == old(self).toks(),
            old(self).toks().len() > 0 ==> r == Some(old(self).toks()[0]) && final(self).toks() == old(self).toks().drop_first(),
    {
        unimplemented!()
    }
}

/// `TokenIterator::new(s).peekable()` (N11)
#[verifier::external_body]
pub fn vx_formula_peekable<'a>(it: TokenIterator<'a>) -> (r: Peekable<TokenIterator<'a>>)
    ensures
        r.toks() == lex_all(it.0.rest()),
{
    unimplemented!()
}

/// u32::from_str (N11): Ok exactly for a non-empty digit string whose value fits
#[verifier::external_body]
pub fn vx_u32_from_str(s: &str) -> (r: Result<u32, VxParseIntError>)
    ensures
        (s@.len() > 0 && forall|i: int| 0 <= i < s@.len() ==> is_dec_digit(#[trigger] s@[i])) ==> (r is Ok <==> dec_value(s@) <= u32::MAX),
        r is Ok ==> r->Ok_0 == dec_value(s@),
{
    unimplemented!()
}
