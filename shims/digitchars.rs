// ---- shims/digitchars.rs: digit characters, String editing, IndexSet (A-std, A-indexmap) ----
/// the value of a digit character in a radix up to 36 ('0'-'9', 'a'-'z'); None for anything else
pub open spec fn dv(c: char) -> Option<int> {
    if '0' <= c <= '9' {
        Some(c as int - '0' as int)
    } else if 'a' <= c <= 'z' {
        Some(c as int - 'a' as int + 10)
    } else {
        None
    }
}

/// std::char::from_digit (N11): Some exactly for d < radix, and then the lower-case digit character of value d
#[verifier::external_body]
pub fn vx_from_digit(d: u32, radix: u32) -> (r: Option<char>)
    requires
        2 <= radix <= 36,
    ensures
        r is Some <==> d < radix,
        r is Some ==> dv(r->Some_0) == Some(d as int) && (r->Some_0 as u32) < 0x80 && r->Some_0 != '.' && r->Some_0 != '-' && r->Some_0 != '[' && r->Some_0 != ']',
{
    core::char::from_digit(d, radix)
}

/// String::len in chars for all-ASCII content is what `buf.len()` returns; here the byte length (N11)
#[verifier::external_body]
pub fn vx_buf_len(s: &String) -> (r: usize)
    ensures
        r == byte_len(s@),
{
    s.len()
}

/// String editing with byte indices (N11: `.insert(i, c)` on a String is renamed to `.vx_insert_char(i, c)`)
pub trait VxStringExt {
    spec fn vx_chars(&self) -> Seq<char>;

    /// String::insert at a byte index that is a character boundary
    fn vx_insert_char(&mut self, idx: usize, c: char)
        requires
            exists|k: int| 0 <= k <= old(self).vx_chars().len() && #[trigger] byte_len(old(self).vx_chars().take(k)) == idx,
        ensures
            forall|k: int| 0 <= k <= old(self).vx_chars().len() && #[trigger] byte_len(old(self).vx_chars().take(k)) == idx ==> final(self).vx_chars() == old(self).vx_chars().take(k).push(c) + old(self).vx_chars().skip(k),
    ;
}

impl VxStringExt for String {
    open spec fn vx_chars(&self) -> Seq<char> {
        self@
    }

    #[verifier::external_body]
    fn vx_insert_char(&mut self, idx: usize, c: char) {
        self.insert(idx, c)
    }
}

/// u32::to_string (N11)
#[verifier::external_body]
pub fn vx_u32_to_string(x: &u32) -> (r: String) {
    x.to_string()
}

/// indexmap::IndexSet: insertion-ordered set (A-indexmap)
#[verifier::external_body]
#[verifier::reject_recursive_types(T)]
pub struct IndexSet<T> {
    t: core::marker::PhantomData<T>,
}

impl<T> IndexSet<T> {
    /// the members in insertion order, pairwise different
    pub uninterp spec fn items(&self) -> Seq<T>;

    #[verifier::external_body]
    pub fn new() -> (r: IndexSet<T>)
        ensures
            r.items() == Seq::<T>::empty(),
    {
        unimplemented!()
    }
}

impl IndexSet<BigRat> {
    /// insert_full: (index, true) for a new member appended at the end, (index, false) for an old one
    #[verifier::external_body]
    pub fn insert_full(&mut self, x: BigRat) -> (r: (usize, bool))
        ensures
            r.1 ==> (forall|i: int| 0 <= i < old(self).items().len() ==> (#[trigger] old(self).items()[i])@ != x@) && final(self).items() == old(self).items().push(x) && r.0 == old(self).items().len(),
            !r.1 ==> 0 <= r.0 < old(self).items().len() && old(self).items()[r.0 as int]@ == x@ && final(self).items() == old(self).items(),
    {
        unimplemented!()
    }
}
