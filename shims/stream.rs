// ---- shims/stream.rs: Peekable<Chars> as a character stream (A-stream) --------
// `rest()` is the sequence of characters still to come; peek() looks at its head, next()
// removes it. Trusted: Peekable<Chars> yields the chars of the &str in order, then None.
#[verifier::external_body]
pub struct Chars<'a> {
    p: core::marker::PhantomData<&'a u8>,
}

#[verifier::external_body]
#[verifier::reject_recursive_types(I)]
pub struct Peekable<I> {
    p: core::marker::PhantomData<I>,
}

impl<'a> Peekable<Chars<'a>> {
    pub uninterp spec fn rest(&self) -> Seq<char>;

    #[verifier::external_body]
    pub fn peek(&mut self) -> (r: Option<&char>)
        ensures
            final(self).rest() == old(self).rest(),
            // a str holds at most usize::MAX bytes
            old(self).rest().len() <= usize::MAX,
            old(self).rest().len() == 0 ==> r is None,
            old(self).rest().len() > 0 ==> r == Some(&old(self).rest()[0]),
    {
        unimplemented!()
    }

    #[verifier::external_body]
    pub fn next(&mut self) -> (r: Option<char>)
        ensures
            old(self).rest().len() == 0 ==> r is None && final(self).rest() == old(self).rest(),
            old(self).rest().len() > 0 ==> r == Some(old(self).rest()[0]) && final(self).rest() == old(self).rest().drop_first(),
    {
        unimplemented!()
    }
}

/// `input.chars().peekable()`
#[verifier::external_body]
pub fn vx_chars_peekable<'a>(input: &'a str) -> (r: Peekable<Chars<'a>>)
    ensures
        r.rest() == input@,
{
    unimplemented!()
}

pub open spec fn is_dec_digit(c: char) -> bool {
    '0' <= c <= '9'
}

pub open spec fn is_hex_digit(c: char) -> bool {
    ('0' <= c <= '9') || ('a' <= c <= 'f') || ('A' <= c <= 'F')
}

pub uninterp spec fn char_is_whitespace(c: char) -> bool;

pub uninterp spec fn char_is_alphanumeric(c: char) -> bool;

pub assume_specification[ char::is_digit ](c: char, radix: u32) -> (r: bool)
    requires
        2 <= radix <= 36,
    ensures
        radix == 10 ==> r == is_dec_digit(c),
        radix == 16 ==> r == is_hex_digit(c),
;

pub assume_specification[ char::is_ascii_digit ](c: &char) -> (r: bool)
    ensures
        r == is_dec_digit(*c),
;

pub assume_specification[ char::is_ascii_hexdigit ](c: &char) -> (r: bool)
    ensures
        r == is_hex_digit(*c),
;

pub assume_specification[ char::is_ascii_alphabetic ](c: &char) -> (r: bool)
    ensures
        r == (('a' <= *c <= 'z') || ('A' <= *c <= 'Z')),
;

pub assume_specification[ char::is_alphanumeric ](c: char) -> (r: bool)
    ensures
        r == char_is_alphanumeric(c),
;

pub assume_specification[ char::to_ascii_lowercase ](c: &char) -> (r: char)
    ensures
        ('A' <= *c <= 'Z') ==> r as u32 == *c as u32 + 32,
        !('A' <= *c <= 'Z') ==> r == *c,
;

/// str::contains(char) (N11)
#[verifier::external_body]
pub fn vx_str_contains_char(s: &str, c: char) -> (r: bool)
    ensures
        r == s@.contains(c),
{
    s.contains(c)
}

#[verifier::external_body]
#[derive(Debug)]
pub struct VxParseIntError {
    e: u8,
}

/// value of a non-empty hex digit string
pub uninterp spec fn hex_value(s: Seq<char>) -> nat;

/// u32::from_str_radix(s, 16): Err on an empty string, a non-digit or a value above u32::MAX (N11)
#[verifier::external_body]
pub fn vx_u32_from_hex(s: &str, radix: u32) -> (r: Result<u32, VxParseIntError>)
    requires
        radix == 16,
    ensures
        r is Ok <==> (s@.len() > 0 && (forall|i: int| 0 <= i < s@.len() ==> is_hex_digit(#[trigger] s@[i])) && hex_value(s@) <= u32::MAX),
{
    unimplemented!()
}

/// char::from_u32 (N11)
#[verifier::external_body]
pub fn vx_char_from_u32(v: u32) -> (r: Option<char>) {
    core::char::from_u32(v)
}

/// i64::from_str on a short all-digit string (N11); other inputs: Ok or Err, nothing promised
#[verifier::external_body]
pub fn vx_i64_from_str(s: &str) -> (r: Result<i64, VxParseIntError>)
    ensures
        (1 <= s@.len() <= 18 && forall|i: int| 0 <= i < s@.len() ==> is_dec_digit(#[trigger] s@[i])) ==> r is Ok && r->Ok_0 == dec_value(s@),
{
    unimplemented!()
}

/// u64::from_str_radix(s, 10) (N11)
#[verifier::external_body]
pub fn vx_u64_from_dec(s: &str, radix: u32) -> (r: Result<u64, VxParseIntError>)
    requires
        radix == 10,
    ensures
        (1 <= s@.len() <= 19 && forall|i: int| 0 <= i < s@.len() ==> is_dec_digit(#[trigger] s@[i])) ==> r is Ok && r->Ok_0 == dec_value(s@),
{
    unimplemented!()
}



