// ---- shims/iter.rs: sequence-valued "iterators" (A-iter) --------------------
// Iterator chains of the real code are kept verbatim; the adapters resolve to
// the methods below on Vec<T>, i.e. the chain is evaluated eagerly. This is
// the same result as std's lazy evaluation whenever the closures passed to the
// adapters have no side effects other than through their result (A-iter).
pub trait VxIterExt<T>: Sized {
    spec fn vx_seq(&self) -> Seq<T>;

    /// Vec::into_iter (N11: `.into_iter()` on a Vec is renamed to this)
    fn vx_into_iter(self) -> (r: Vec<T>)
        ensures
            r@ == self.vx_seq(),
    ;

    /// slice::iter (N11: `.iter()` on a Vec is renamed to this where adapters follow)
    fn vx_iter<'a>(&'a self) -> (r: Vec<&'a T>)
        ensures
            r@.len() == self.vx_seq().len(),
            forall|i: int| #![trigger r@[i]] #![trigger self.vx_seq()[i]] 0 <= i < r@.len() ==> *r@[i] == self.vx_seq()[i],
    ;

    /// slice::first
    fn vx_first<'a>(&'a self) -> (r: Option<&'a T>)
        ensures
            self.vx_seq().len() == 0 ==> r is None,
            self.vx_seq().len() > 0 ==> r == Some(&self.vx_seq()[0]),
    ;

    fn enumerate(self) -> (r: Vec<(usize, T)>)
        ensures
            r@.len() == self.vx_seq().len(),
            forall|i: int| 0 <= i < r@.len() ==> r@[i] == (i as usize, self.vx_seq()[i]),
            // a Vec never holds more than isize::MAX elements: the indices are the positions
            r@.len() <= usize::MAX,
    ;

    fn skip(self, n: usize) -> (r: Vec<T>)
        ensures
            r@ == (if n <= self.vx_seq().len() { self.vx_seq().subrange(n as int, self.vx_seq().len() as int) } else { Seq::empty() }),
            forall|i: int| n <= i < self.vx_seq().len() ==> #[trigger] self.vx_seq()[i] == r@[i - n],
    ;

    /// Iterator::next on the sequence: removes and returns the first element
    fn next(&mut self) -> (r: Option<T>)
        ensures
            old(self).vx_seq().len() == 0 ==> r is None && final(self).vx_seq() == old(self).vx_seq(),
            old(self).vx_seq().len() > 0 ==> r == Some(old(self).vx_seq()[0]) && final(self).vx_seq() == old(self).vx_seq().drop_first(),
    ;

    /// Vec::drain(..): all elements, leaving the vector empty (N11: `.drain(..)` is renamed to this)
    fn vx_drain_all(&mut self, r: core::ops::RangeFull) -> (res: Vec<T>)
        ensures
            res@ == old(self).vx_seq(),
            final(self).vx_seq() == Seq::<T>::empty(),
    ;

    /// Iterator::map, element-wise in order (A-iter: the closure has no side effects)
    fn map<U, F: Fn(T) -> U>(self, f: F) -> (r: Vec<U>)
        requires
            forall|i: int| 0 <= i < self.vx_seq().len() ==> #[trigger] f.requires((self.vx_seq()[i],)),
        ensures
            r@.len() == self.vx_seq().len(),
            forall|i: int| #![trigger r@[i]] #![trigger self.vx_seq()[i]] 0 <= i < r@.len() ==> f.ensures((self.vx_seq()[i],), r@[i]),
    ;

    /// Iterator::collect into a container that is built by successive insertion
    fn collect<B: VxFromVec<T>>(self) -> (r: B)
        ensures
            B::from_vec_post(self.vx_seq(), r),
    ;
}

/// FromIterator restricted to the sequence-valued iterators
pub trait VxFromVec<T>: Sized {
    spec fn from_vec_post(s: Seq<T>, r: Self) -> bool;

    fn vx_from_vec(v: Vec<T>) -> (r: Self)
        ensures
            Self::from_vec_post(v@, r),
    ;
}

impl<T> VxFromVec<T> for Vec<T> {
    open spec fn from_vec_post(s: Seq<T>, r: Vec<T>) -> bool {
        r@ == s
    }

    fn vx_from_vec(v: Vec<T>) -> (r: Vec<T>) {
        v
    }
}

impl<T> VxIterExt<T> for Vec<T> {
    open spec fn vx_seq(&self) -> Seq<T> {
        self@
    }

    #[verifier::external_body]
    fn vx_into_iter(self) -> (r: Vec<T>) {
        self
    }

    #[verifier::external_body]
    fn vx_iter<'a>(&'a self) -> (r: Vec<&'a T>) {
        self.iter().collect()
    }

    #[verifier::external_body]
    fn vx_first<'a>(&'a self) -> (r: Option<&'a T>) {
        self.first()
    }

    #[verifier::external_body]
    fn enumerate(self) -> (r: Vec<(usize, T)>) {
        self.into_iter().enumerate().collect()
    }

    #[verifier::external_body]
    fn skip(self, n: usize) -> (r: Vec<T>) {
        self.into_iter().skip(n).collect()
    }

    #[verifier::external_body]
    fn next(&mut self) -> (r: Option<T>) {
        if self.is_empty() { None } else { Some(self.remove(0)) }
    }

    #[verifier::external_body]
    fn vx_drain_all(&mut self, r: core::ops::RangeFull) -> (res: Vec<T>) {
        self.drain(r).collect()
    }

    #[verifier::external_body]
    fn map<U, F: Fn(T) -> U>(self, f: F) -> (r: Vec<U>) {
        self.into_iter().map(f).collect()
    }

    fn collect<B: VxFromVec<T>>(self) -> (r: B) {
        B::vx_from_vec(self)
    }
}

/// `Iterator::peekable()` on the sequence: a cursor that never changes the entries
#[verifier::external_body]
#[verifier::reject_recursive_types(T)]
pub struct VxPeekable<T> {
    t: core::marker::PhantomData<T>,
}

impl<T> VxPeekable<T> {
    pub uninterp spec fn entries(&self) -> Seq<T>;

    pub uninterp spec fn pos(&self) -> int;

    pub open spec fn wf(&self) -> bool {
        0 <= self.pos() <= self.entries().len()
    }

    #[verifier::external_body]
    pub fn peek(&mut self) -> (r: Option<&T>)
        requires
            old(self).wf(),
        ensures
            final(self).entries() == old(self).entries(),
            final(self).pos() == old(self).pos(),
            old(self).pos() < old(self).entries().len() ==> r == Some(&old(self).entries()[old(self).pos()]),
            old(self).pos() >= old(self).entries().len() ==> r is None,
    {
        unimplemented!()
    }

    #[verifier::external_body]
    pub fn next(&mut self) -> (r: Option<T>)
        requires
            old(self).wf(),
        ensures
            final(self).wf(),
            final(self).entries() == old(self).entries(),
            old(self).pos() < old(self).entries().len() ==> r == Some(old(self).entries()[old(self).pos()]) && final(self).pos() == old(self).pos() + 1,
            old(self).pos() >= old(self).entries().len() ==> r is None && final(self).pos() == old(self).pos(),
    {
        unimplemented!()
    }
}

pub trait VxPeekableExt<T>: Sized {
    spec fn vx_seq2(&self) -> Seq<T>;

    fn peekable(self) -> (r: VxPeekable<T>)
        ensures
            r.entries() == self.vx_seq2(),
            r.pos() == 0,
            r.wf(),
    ;
}

impl<T> VxPeekableExt<T> for Vec<T> {
    open spec fn vx_seq2(&self) -> Seq<T> {
        self@
    }

    #[verifier::external_body]
    fn peekable(self) -> (r: VxPeekable<T>) {
        unimplemented!()
    }
}

/// Option<&T>::cloned for Copy payloads (N11)
#[verifier::external_body]
pub fn vx_opt_cloned<T: Copy>(o: Option<&T>) -> (r: Option<T>)
    ensures
        o is None ==> r is None,
        o is Some ==> r == Some(*o->Some_0),
{
    o.cloned()
}

/// collecting Results: Ok of all payloads iff every element is Ok (std stops at the first Err)
impl<T, E> VxFromVec<Result<T, E>> for Result<Vec<T>, E> {
    open spec fn from_vec_post(s: Seq<Result<T, E>>, r: Result<Vec<T>, E>) -> bool {
        &&& r is Ok <==> forall|i: int| 0 <= i < s.len() ==> (#[trigger] s[i]) is Ok
        &&& r is Ok ==> r->Ok_0@.len() == s.len() && forall|i: int| 0 <= i < s.len() ==> s[i]->Ok_0 == #[trigger] r->Ok_0@[i]
    }

    #[verifier::external_body]
    fn vx_from_vec(v: Vec<Result<T, E>>) -> (r: Result<Vec<T>, E>) {
        v.into_iter().collect()
    }
}
