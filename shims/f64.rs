// ---- shims/f64.rs: floating point (A-float) --------------------------------
// Float results are unconstrained; float branches are verified for
// panic-freedom only.
pub uninterp spec fn f64_is_nan(x: f64) -> bool;

pub uninterp spec fn f64_is_infinite(x: f64) -> bool;

/// neither NaN nor infinite
pub open spec fn f64_is_finite(x: f64) -> bool {
    !f64_is_nan(x) && !f64_is_infinite(x)
}

/// IEEE comparison (opaque)
pub uninterp spec fn f64_cmp_spec(a: f64, b: f64) -> Option<core::cmp::Ordering>;

/// the real a finite float denotes
pub uninterp spec fn f64_real(x: f64) -> real;

/// sign bit clear
pub uninterp spec fn f64_is_pos(x: f64) -> bool;

/// IEEE `==` on floats (false on NaN, true for 0.0 == -0.0)
pub uninterp spec fn f64_eq(a: f64, b: f64) -> bool;

pub open spec fn cmp_real(a: real, b: real) -> core::cmp::Ordering {
    if a < b {
        core::cmp::Ordering::Less
    } else if a == b {
        core::cmp::Ordering::Equal
    } else {
        core::cmp::Ordering::Greater
    }
}

/// IEEE-754 facts about comparison (trusted, A-float): NaN is unordered, finite floats compare as
/// the reals they denote, +inf is greater than every finite float
pub broadcast axiom fn axiom_f64_cmp(a: f64, b: f64)
    ensures
        !(f64_is_nan(a) && f64_is_infinite(a)),
        (f64_is_nan(a) || f64_is_nan(b)) ==> #[trigger] f64_cmp_spec(a, b) is None,
        f64_is_finite(a) && f64_is_finite(b) ==> f64_cmp_spec(a, b) == Some(cmp_real(f64_real(a), f64_real(b))),
        f64_is_infinite(a) && f64_is_pos(a) && f64_is_finite(b) ==> f64_cmp_spec(a, b) == Some(core::cmp::Ordering::Greater),
;

/// |x| as IEEE defines it
pub open spec fn f64_abs_rel(x: f64, r: f64) -> bool {
    &&& f64_is_nan(x) == f64_is_nan(r)
    &&& f64_is_infinite(x) == f64_is_infinite(r)
    &&& (f64_is_infinite(x) ==> f64_is_pos(r))
    &&& (f64_is_finite(x) ==> f64_real(r) == (if f64_real(x) >= 0real { f64_real(x) } else { -f64_real(x) }))
}

pub assume_specification[ f64::abs ](x: f64) -> (r: f64)
    ensures
        f64_abs_rel(x, r),
;

pub assume_specification[ f64::is_nan ](x: f64) -> (r: bool)
    ensures
        r == f64_is_nan(x),
;

pub assume_specification[ f64::is_infinite ](x: f64) -> (r: bool)
    ensures
        r == f64_is_infinite(x),
;

pub assume_specification[ f64::is_finite ](x: f64) -> (r: bool)
    ensures
        r == f64_is_finite(x),
;

/// `a > b` on floats (N11); the result is only used to tell the two infinities apart
#[verifier::external_body]
pub fn vx_f64_gt(a: f64, b: f64) -> (r: bool) {
    a > b
}

pub assume_specification[ f64::powi ](x: f64, n: i32) -> f64;

pub assume_specification[ f64::powf ](x: f64, n: f64) -> f64;

#[verifier::external_body]
pub fn vx_fneg(x: f64) -> f64 {
    -x
}

#[verifier::external_body]
pub fn vx_f64_add(a: f64, b: &f64) -> f64 {
    a + *b
}

#[verifier::external_body]
pub fn vx_f64_sub(a: f64, b: &f64) -> f64 {
    a - *b
}

#[verifier::external_body]
pub fn vx_f64_mul(a: f64, b: &f64) -> f64 {
    a * *b
}

#[verifier::external_body]
pub fn vx_f64_div(a: f64, b: &f64) -> f64 {
    a / *b
}

#[verifier::external_body]
pub fn vx_f64_rem(a: f64, b: &f64) -> f64 {
    a % *b
}

#[verifier::external_body]
pub fn vx_f64_partial_cmp(a: &f64, b: &f64) -> (r: Option<core::cmp::Ordering>)
    ensures
        r == f64_cmp_spec(*a, *b),
{
    a.partial_cmp(b)
}

pub assume_specification[ i64::max_value ]() -> (r: i64)
    ensures
        r == i64::MAX,
;

// transcendental functions: total, results unconstrained (A-float)
pub assume_specification[ f64::sin ](x: f64) -> f64;

pub assume_specification[ f64::cos ](x: f64) -> f64;

pub assume_specification[ f64::tan ](x: f64) -> f64;

pub assume_specification[ f64::asin ](x: f64) -> f64;

pub assume_specification[ f64::acos ](x: f64) -> f64;

pub assume_specification[ f64::atan ](x: f64) -> f64;

pub assume_specification[ f64::atan2 ](x: f64, y: f64) -> f64;

pub assume_specification[ f64::hypot ](x: f64, y: f64) -> f64;

/// f64::trunc (total, result unconstrained: A-float)
#[verifier::external_body]
pub fn vx_f64_trunc(a: f64) -> f64 {
    a.trunc()
}
