// ---- shims/f64.rs: floating point (A-float) --------------------------------
// Float results are unconstrained; float branches are verified for
// panic-freedom only.
pub uninterp spec fn f64_is_nan(x: f64) -> bool;

pub uninterp spec fn f64_is_infinite(x: f64) -> bool;

/// neither NaN nor infinite
pub open spec fn f64_is_finite(x: f64) -> bool {
    !f64_is_nan(x) && !f64_is_infinite(x)
}

/// IEEE comparison (opaque)
pub uninterp spec fn f64_cmp_spec(a: f64, b: f64) -> Option<core::cmp::Ordering>;

pub assume_specification[ f64::abs ](x: f64) -> f64;

pub assume_specification[ f64::is_nan ](x: f64) -> (r: bool)
    ensures
        r == f64_is_nan(x),
;

pub assume_specification[ f64::is_infinite ](x: f64) -> (r: bool)
    ensures
        r == f64_is_infinite(x),
;

pub assume_specification[ f64::powi ](x: f64, n: i32) -> f64;

pub assume_specification[ f64::powf ](x: f64, n: f64) -> f64;

#[verifier::external_body]
pub fn vx_fneg(x: f64) -> f64 {
    -x
}

#[verifier::external_body]
pub fn vx_f64_add(a: f64, b: &f64) -> f64 {
    a + *b
}

#[verifier::external_body]
pub fn vx_f64_sub(a: f64, b: &f64) -> f64 {
    a - *b
}

#[verifier::external_body]
pub fn vx_f64_mul(a: f64, b: &f64) -> f64 {
    a * *b
}

#[verifier::external_body]
pub fn vx_f64_div(a: f64, b: &f64) -> f64 {
    a / *b
}

#[verifier::external_body]
pub fn vx_f64_rem(a: f64, b: &f64) -> f64 {
    a % *b
}

#[verifier::external_body]
pub fn vx_f64_partial_cmp(a: &f64, b: &f64) -> (r: Option<core::cmp::Ordering>)
    ensures
        r == f64_cmp_spec(*a, *b),
{
    a.partial_cmp(b)
}

pub assume_specification[ i64::max_value ]() -> (r: i64)
    ensures
        r == i64::MAX,
;
