// ---- shims/stdopt.rs: Option / Result combinators without a vstd spec (A-std) ----
pub assume_specification<T, E, U, F: FnOnce(T) -> Result<U, E>>[ Result::<T, E>::and_then ](r: Result<T, E>, op: F) -> (res: Result<U, E>)
    requires
        r is Ok ==> op.requires((r->Ok_0,)),
    ensures
        r is Ok ==> op.ensures((r->Ok_0,), res),
        r is Err ==> res is Err && res->Err_0 == r->Err_0,
;

pub assume_specification<T, E, F: FnOnce(E) -> T>[ Result::<T, E>::unwrap_or_else ](r: Result<T, E>, op: F) -> (res: T)
    requires
        r is Err ==> op.requires((r->Err_0,)),
    ensures
        r is Ok ==> res == r->Ok_0,
        r is Err ==> op.ensures((r->Err_0,), res),
;
