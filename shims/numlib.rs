// ---- shims/numlib.rs: num_bigint::BigInt (NumInt) and num_rational::BigRational (NumRat), the libraries under rink's own
// BigInt / BigRat wrappers (unit `bigwrap` only). Trusted (A-bigint, A-bigrat): num-bigint implements exact integer arithmetic
// (`/` truncates toward zero, `%` has the sign of the dividend, both panic on a zero divisor; to_i64 is Some iff in range);
// num-rational implements exact field arithmetic and keeps every value it produces in lowest terms with a positive
// denominator - except `new_raw`, which stores what it is given.
#[verifier::external_body]
pub struct NumInt {
    inner: u8,
}

#[verifier::external_body]
pub struct ParseBigIntError {
    e: u8,
}

impl View for NumInt {
    type V = int;

    uninterp spec fn view(&self) -> int;
}

pub uninterp spec fn int_and(a: int, b: int) -> int;

pub uninterp spec fn int_or(a: int, b: int) -> int;

pub uninterp spec fn int_xor(a: int, b: int) -> int;

/// the numeral of an integer in the given radix
pub uninterp spec fn radix_text(i: int, radix: int) -> Seq<char>;

/// value of a digit string in the given radix, None if it is not one
pub uninterp spec fn radix_value(s: Seq<char>, radix: int) -> Option<int>;

impl NumInt {
    #[verifier::external_body]
    pub fn one() -> (r: NumInt)
        ensures
            r@ == 1,
    {
        unimplemented!()
    }

    #[verifier::external_body]
    pub fn zero() -> (r: NumInt)
        ensures
            r@ == 0,
    {
        unimplemented!()
    }

    /// num_traits::Num::from_str_radix
    #[verifier::external_body]
    pub fn from_str_radix(input: &str, base: u32) -> (r: Result<NumInt, ParseBigIntError>)
        requires
            2 <= base <= 36,
        ensures
            r is Ok <==> radix_value(input@, base as int) is Some,
            r is Ok ==> r->Ok_0@ == radix_value(input@, base as int)->Some_0,
    {
        unimplemented!()
    }

    /// num_traits::Pow<u32>
    #[verifier::external_body]
    pub fn pow(&self, exponent: u32) -> (r: NumInt)
        ensures
            r@ == pow(self@, exponent as nat),
    {
        unimplemented!()
    }

    /// BigInt::to_str_radix
    #[verifier::external_body]
    pub fn to_str_radix(&self, radix: u32) -> (r: String)
        requires
            2 <= radix <= 36,
        ensures
            r@ == radix_text(self@, radix as int),
    {
        unimplemented!()
    }

    /// num_traits::ToPrimitive::to_i64
    #[verifier::external_body]
    pub fn to_i64(&self) -> (r: Option<i64>)
        ensures
            (i64::MIN <= self@ <= i64::MAX) ==> r == Some(self@ as i64),
            !(i64::MIN <= self@ <= i64::MAX) ==> r is None,
    {
        unimplemented!()
    }

    /// num_traits::Signed::abs
    #[verifier::external_body]
    pub fn abs(&self) -> (r: NumInt)
        ensures
            r@ == (if self@ >= 0 { self@ } else { -self@ }),
    {
        unimplemented!()
    }
}

impl Clone for NumInt {
    #[verifier::external_body]
    fn clone(&self) -> (r: NumInt)
        ensures
            r@ == self@,
    {
        unimplemented!()
    }
}

impl vstd::std_specs::convert::FromSpecImpl<u64> for NumInt {
    open spec fn obeys_from_spec() -> bool {
        false
    }

    open spec fn from_spec(v: u64) -> NumInt {
        arbitrary()
    }
}

impl From<u64> for NumInt {
    #[verifier::external_body]
    fn from(value: u64) -> (r: NumInt)
        ensures
            r@ == value as int,
    {
        unimplemented!()
    }
}

impl vstd::std_specs::convert::FromSpecImpl<i64> for NumInt {
    open spec fn obeys_from_spec() -> bool {
        false
    }

    open spec fn from_spec(v: i64) -> NumInt {
        arbitrary()
    }
}

impl From<i64> for NumInt {
    #[verifier::external_body]
    fn from(value: i64) -> (r: NumInt)
        ensures
            r@ == value as int,
    {
        unimplemented!()
    }
}

#[verifier::external_body]
pub struct NumRat {
    inner: u8,
}

impl View for NumRat {
    type V = real;

    uninterp spec fn view(&self) -> real;
}

/// numerator and denominator of a rational value in lowest terms with a positive denominator
pub uninterp spec fn rat_numer(x: real) -> int;

pub uninterp spec fn rat_denom(x: real) -> int;

/// nearest float of a rational (opaque)
pub uninterp spec fn rat_as_float(x: real) -> f64;

impl NumRat {
    /// the stored numerator and denominator
    pub uninterp spec fn stored_numer(&self) -> int;

    pub uninterp spec fn stored_denom(&self) -> int;

    /// in lowest terms with a positive denominator: what is stored is what the value determines
    pub open spec fn reduced(&self) -> bool {
        self.stored_numer() == rat_numer(self@) && self.stored_denom() == rat_denom(self@)
    }

    #[verifier::external_body]
    pub fn one() -> (r: NumRat)
        ensures
            r@ == 1real,
            r.reduced(),
    {
        unimplemented!()
    }

    #[verifier::external_body]
    pub fn zero() -> (r: NumRat)
        ensures
            r@ == 0real,
            r.reduced(),
    {
        unimplemented!()
    }

    /// Ratio::new: reduces; panics on a zero denominator
    #[verifier::external_body]
    pub fn new(numer: NumInt, denom: NumInt) -> (r: NumRat)
        requires
            denom@ != 0,
        ensures
            r@ == (numer@ as real) / (denom@ as real),
            r.reduced(),
    {
        unimplemented!()
    }

    /// Ratio::new_raw: stores its arguments as they are
    #[verifier::external_body]
    pub fn new_raw(numer: NumInt, denom: NumInt) -> (r: NumRat)
        ensures
            denom@ != 0 ==> r@ == (numer@ as real) / (denom@ as real),
            r.stored_numer() == numer@,
            r.stored_denom() == denom@,
    {
        unimplemented!()
    }

    #[verifier::external_body]
    pub fn numer(&self) -> (r: &NumInt)
        ensures
            r@ == self.stored_numer(),
    {
        unimplemented!()
    }

    #[verifier::external_body]
    pub fn denom(&self) -> (r: &NumInt)
        ensures
            r@ == self.stored_denom(),
    {
        unimplemented!()
    }

    /// num_traits::Signed::abs
    #[verifier::external_body]
    pub fn abs(&self) -> (r: NumRat)
        ensures
            r@ == abs_real(self@),
            r.reduced(),
    {
        unimplemented!()
    }

    /// num_traits::ToPrimitive::to_f64: always Some for a rational (the nearest float, possibly infinite)
    #[verifier::external_body]
    pub fn to_f64(&self) -> (r: Option<f64>)
        ensures
            r == Some(rat_as_float(self@)),
    {
        unimplemented!()
    }

    /// Ratio::from_float: None for NaN and the infinities
    #[verifier::external_body]
    pub fn from_float(value: f64) -> (r: Option<NumRat>)
        ensures
            r is Some <==> f64_is_finite(value),
            r is Some ==> r->Some_0@ == f64_real(value) && r->Some_0.reduced(),
    {
        unimplemented!()
    }
}

impl Clone for NumRat {
    #[verifier::external_body]
    fn clone(&self) -> (r: NumRat)
        ensures
            r@ == self@,
            r.stored_numer() == self.stored_numer(),
            r.stored_denom() == self.stored_denom(),
    {
        unimplemented!()
    }
}

impl<'a> vstd::std_specs::ops::NegSpecImpl for &'a NumRat {
    open spec fn obeys_neg_spec() -> bool {
        false
    }

    open spec fn neg_req(self) -> bool {
        true
    }

    open spec fn neg_spec(self) -> NumRat {
        arbitrary()
    }
}

impl<'a> Neg for &'a NumRat {
    type Output = NumRat;

    #[verifier::external_body]
    fn neg(self) -> (r: NumRat)
        ensures
            r@ == -self@,
            r.reduced(),
    {
        unimplemented!()
    }
}

impl vstd::std_specs::cmp::PartialEqSpecImpl for NumInt {
    open spec fn obeys_eq_spec() -> bool {
        true
    }

    open spec fn eq_spec(&self, other: &NumInt) -> bool {
        self@ == other@
    }
}

impl PartialEq for NumInt {
    #[verifier::external_body]
    fn eq(&self, other: &NumInt) -> (r: bool)
    {
        unimplemented!()
    }
}

impl Eq for NumInt {

}

impl vstd::std_specs::cmp::PartialOrdSpecImpl for NumInt {
    open spec fn obeys_partial_cmp_spec() -> bool {
        true
    }

    open spec fn partial_cmp_spec(&self, other: &NumInt) -> Option<core::cmp::Ordering> {
        if self@ < other@ {
            Some(core::cmp::Ordering::Less)
        } else if self@ == other@ {
            Some(core::cmp::Ordering::Equal)
        } else {
            Some(core::cmp::Ordering::Greater)
        }
    }
}

impl PartialOrd for NumInt {
    #[verifier::external_body]
    fn partial_cmp(&self, other: &NumInt) -> (r: Option<core::cmp::Ordering>)
    {
        unimplemented!()
    }
}
