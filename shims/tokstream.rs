// ---- shims/tokstream.rs: the query token stream (A-stream) ----
// ---- the token stream Peekable<TokenIterator>: the tokens still to come; after them the lexer
// yields Token::Eof for ever (proved for TokenIterator::next in unit `lexer`)
impl<'a> Peekable<TokenIterator<'a>> {
    pub uninterp spec fn toks(&self) -> Seq<Token>;

    #[verifier::external_body]
    pub fn peek(&mut self) -> (r: Option<&Token>)
        ensures
            final(self).toks() == old(self).toks(),
            r is Some,
            old(self).toks().len() == 0 ==> *r->Some_0 is Eof,
            old(self).toks().len() > 0 ==> *r->Some_0 == old(self).toks()[0],
    {
        unimplemented!()
    }

    #[verifier::external_body]
    pub fn next(&mut self) -> (r: Option<Token>)
        ensures
            r is Some,
            old(self).toks().len() == 0 ==> r->Some_0 is Eof && final(self).toks() == old(self).toks(),
            old(self).toks().len() > 0 ==> r->Some_0 == old(self).toks()[0] && final(self).toks() == old(self).toks().drop_first(),
    {
        unimplemented!()
    }
}

impl<'a> Peekable<TokenIterator<'a>> {
    /// Clone of the token stream: an independent cursor over the same remaining tokens
    #[verifier::external_body]
    pub fn clone(&self) -> (r: Self)
        ensures
            r.toks() == self.toks(),
    {
        unimplemented!()
    }
}

pub type Iter<'a> = Peekable<TokenIterator<'a>>;

/// Option<&Token>::cloned (N11)
#[verifier::external_body]
pub fn vx_opt_cloned_token(o: Option<&Token>) -> (r: Option<Token>)
    ensures
        o is None ==> r is None,
        o is Some ==> r == Some(*o->Some_0),
{
    unimplemented!()
}
