// ---- shims/bigrat.rs: rink_core::types::BigRat as a mathematical rational --
// Trusted (A-bigrat): num-rational implements exact field arithmetic; `/`, `%`
// and `new` panic on a zero divisor; numer()/denom() are in lowest terms with
// a positive denominator. The view is Verus' `real` sort.
#[verifier::external_body]
pub struct BigRat {
    inner: u8,
}

impl View for BigRat {
    type V = real;

    uninterp spec fn view(&self) -> real;
}

pub uninterp spec fn rat_numer(x: real) -> int;

pub uninterp spec fn rat_denom(x: real) -> int;

// every BigRat is a rational: numer()/denom() reproduce it, denom > 0, and an
// integral value has denominator one (lowest terms); stated as postconditions
// of numer()/denom()


/// the facts numer()/denom() expose, as a lemma about any BigRat value (trusted, A-bigrat)
pub axiom fn axiom_rat_parts(x: &BigRat)
    ensures
        rat_denom(x@) > 0,
        (rat_numer(x@) as real) == x@ * (rat_denom(x@) as real),
        is_integral(x@) <==> rat_denom(x@) == 1,
        rat_denom(x@) == 1 ==> rat_numer(x@) == x@.floor(),
;

impl BigRat {
    #[verifier::external_body]
    pub fn one() -> (r: BigRat)
        ensures
            r@ == 1real,
    {
        unimplemented!()
    }

    #[verifier::external_body]
    pub fn zero() -> (r: BigRat)
        ensures
            r@ == 0real,
    {
        unimplemented!()
    }

    #[verifier::external_body]
    pub fn ratio(numerator: &BigInt, denominator: &BigInt) -> (r: BigRat)
        requires
            denominator@ != 0,
        ensures
            r@ == (numerator@ as real) / (denominator@ as real),
            denominator@ == 1 ==> r@ == numerator@ as real && is_integral(r@),
    {
        unimplemented!()
    }

    #[verifier::external_body]
    pub fn small_ratio(numerator: i64, denominator: i64) -> (r: BigRat)
        requires
            denominator != 0,
        ensures
            r@ == (numerator as real) / (denominator as real),
    {
        unimplemented!()
    }

    #[verifier::external_body]
    pub fn numer(&self) -> (r: BigInt)
        ensures
            r@ == rat_numer(self@),
            rat_denom(self@) > 0,
            (r@ as real) == self@ * (rat_denom(self@) as real),
            rat_denom(self@) == 1 ==> (r@ as real) == self@ && r@ == self@.floor(),
            is_integral(self@) <==> rat_denom(self@) == 1,
    {
        unimplemented!()
    }

    #[verifier::external_body]
    pub fn denom(&self) -> (r: BigInt)
        ensures
            r@ == rat_denom(self@),
            r@ > 0,
            (rat_numer(self@) as real) == self@ * (r@ as real),
            is_integral(self@) <==> r@ == 1,
    {
        unimplemented!()
    }

    #[verifier::external_body]
    pub fn abs(&self) -> (r: BigRat)
        ensures
            r@ == abs_real(self@),
    {
        unimplemented!()
    }

    #[verifier::external_body]
    pub fn as_float(&self) -> (r: f64)
        ensures
            r == rat_as_float(self@),
    {
        unimplemented!()
    }
}

impl Clone for BigRat {
    #[verifier::external_body]
    fn clone(&self) -> (r: BigRat)
        ensures
            r@ == self@,
    {
        unimplemented!()
    }
}

/// nearest float of a rational (opaque)
pub uninterp spec fn rat_as_float(x: real) -> f64;

/// integers up to 2^53 are exactly representable (trusted, A-float)
pub axiom fn axiom_rat_as_float_exact(x: real)
    ensures
        is_integral(x) && -9007199254740992real <= x <= 9007199254740992real ==> f64_is_finite(rat_as_float(x)) && f64_real(rat_as_float(x)) == x,
;



/// `BigRat::from(f64)`: BigRational::from_float(value).unwrap() panics unless the float is finite (N11 target)
#[verifier::external_body]
pub fn vx_bigrat_from_f64(value: f64) -> (r: BigRat)
    requires
        f64_is_finite(value),
    ensures
        r@ == f64_real(value),
{
    unimplemented!()
}

impl vstd::std_specs::convert::FromSpecImpl<f64> for BigRat {
    open spec fn obeys_from_spec() -> bool {
        false
    }

    open spec fn from_spec(v: f64) -> BigRat {
        arbitrary()
    }
}

impl From<f64> for BigRat {
    #[verifier::external_body]
    fn from(value: f64) -> (r: BigRat)
    {
        unimplemented!()
    }
}

impl<'a> vstd::std_specs::ops::NegSpecImpl for &'a BigRat {
    open spec fn obeys_neg_spec() -> bool {
        false
    }

    open spec fn neg_req(self) -> bool {
        true
    }

    open spec fn neg_spec(self) -> BigRat {
        arbitrary()
    }
}

impl<'a> Neg for &'a BigRat {
    type Output = BigRat;

    #[verifier::external_body]
    fn neg(self) -> (r: BigRat)
        ensures
            r@ == -self@,
    {
        unimplemented!()
    }
}

impl vstd::std_specs::cmp::PartialEqSpecImpl for BigRat {
    open spec fn obeys_eq_spec() -> bool {
        true
    }

    open spec fn eq_spec(&self, other: &BigRat) -> bool {
        self@ == other@
    }
}

impl PartialEq for BigRat {
    #[verifier::external_body]
    fn eq(&self, other: &BigRat) -> (r: bool)
    {
        unimplemented!()
    }
}

impl Eq for BigRat {

}

impl vstd::std_specs::cmp::PartialOrdSpecImpl for BigRat {
    open spec fn obeys_partial_cmp_spec() -> bool {
        true
    }

    open spec fn partial_cmp_spec(&self, other: &BigRat) -> Option<core::cmp::Ordering> {
        if self@ < other@ {
            Some(core::cmp::Ordering::Less)
        } else if self@ == other@ {
            Some(core::cmp::Ordering::Equal)
        } else {
            Some(core::cmp::Ordering::Greater)
        }
    }
}

impl PartialOrd for BigRat {
    #[verifier::external_body]
    fn partial_cmp(&self, other: &BigRat) -> (r: Option<core::cmp::Ordering>)
    {
        unimplemented!()
    }
}
