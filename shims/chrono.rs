// ---- shims/chrono.rs: chrono 0.4.38 Duration / DateTime / FixedOffset (A-chrono) ----
// Duration (= TimeDelta): an integer number of nanoseconds within +-i64::MAX milliseconds.
// DateTime<T>: an instant (integer nanoseconds) plus an opaque time zone; arithmetic on
// instants is exact, checked_* never panic, `a - b` is the difference of instants.
// Calendar semantics (what instant a civil date denotes) are chrono's and not modelled.
pub open spec fn duration_max_ns() -> int {
    9223372036854775807int * 1000000int + 999999int
}

#[verifier::external_body]
pub struct Duration {
    d: u8,
}

impl View for Duration {
    type V = int;

    uninterp spec fn view(&self) -> int;
}

impl Clone for Duration {
    #[verifier::external_body]
    fn clone(&self) -> (r: Duration)
        ensures
            r@ == self@,
    {
        unimplemented!()
    }
}

impl Copy for Duration {

}

impl Duration {
    /// panics ("TimeDelta::milliseconds out of bounds") only for i64::MIN
    #[verifier::external_body]
    pub fn milliseconds(milliseconds: i64) -> (r: Duration)
        requires
            milliseconds > i64::MIN,
        ensures
            r@ == milliseconds * 1000000,
    {
        unimplemented!()
    }

    #[verifier::external_body]
    pub fn try_milliseconds(milliseconds: i64) -> (r: Option<Duration>)
        ensures
            r is Some <==> milliseconds > i64::MIN,
            r is Some ==> r->Some_0@ == milliseconds * 1000000,
    {
        unimplemented!()
    }

    /// None when the sum leaves the representable range
    #[verifier::external_body]
    pub fn checked_add(&self, rhs: &Duration) -> (r: Option<Duration>)
        ensures
            r is Some <==> -duration_max_ns() <= self@ + rhs@ <= duration_max_ns(),
            r is Some ==> r->Some_0@ == self@ + rhs@,
    {
        unimplemented!()
    }

    #[verifier::external_body]
    pub fn nanoseconds(nanos: i64) -> (r: Duration)
        ensures
            r@ == nanos,
    {
        unimplemented!()
    }

    /// whole milliseconds, truncated toward zero
    #[verifier::external_body]
    pub fn num_milliseconds(&self) -> (r: i64)
        ensures
            r == trunc_div(self@, 1000000),
            -duration_max_ns() <= self@ <= duration_max_ns(),
    {
        unimplemented!()
    }

    #[verifier::external_body]
    pub fn num_nanoseconds(&self) -> (r: Option<i64>)
        ensures
            (i64::MIN <= self@ <= i64::MAX) ==> r == Some(self@ as i64),
            !(i64::MIN <= self@ <= i64::MAX) ==> r is None,
    {
        unimplemented!()
    }
}

impl vstd::std_specs::ops::AddSpecImpl<Duration> for Duration {
    open spec fn obeys_add_spec() -> bool {
        false
    }

    /// `TimeDelta + TimeDelta` panics when the sum leaves the representable range
    open spec fn add_req(self, rhs: Duration) -> bool {
        -duration_max_ns() <= self@ + rhs@ <= duration_max_ns()
    }

    open spec fn add_spec(self, rhs: Duration) -> Duration {
        arbitrary()
    }
}

impl Add<Duration> for Duration {
    type Output = Duration;

    #[verifier::external_body]
    fn add(self, rhs: Duration) -> (r: Duration)
        ensures
            r@ == self@ + rhs@,
    {
        unimplemented!()
    }
}

impl vstd::std_specs::ops::SubSpecImpl<Duration> for Duration {
    open spec fn obeys_sub_spec() -> bool {
        false
    }

    open spec fn sub_req(self, rhs: Duration) -> bool {
        -duration_max_ns() <= self@ - rhs@ <= duration_max_ns()
    }

    open spec fn sub_spec(self, rhs: Duration) -> Duration {
        arbitrary()
    }
}

impl Sub<Duration> for Duration {
    type Output = Duration;

    #[verifier::external_body]
    fn sub(self, rhs: Duration) -> (r: Duration)
        ensures
            r@ == self@ - rhs@,
    {
        unimplemented!()
    }
}

pub trait TimeZone {

}

impl TimeZone for FixedOffset {

}

impl TimeZone for Tz {

}

impl vstd::std_specs::ops::NegSpecImpl for Duration {
    open spec fn obeys_neg_spec() -> bool {
        false
    }

    open spec fn neg_req(self) -> bool {
        true
    }

    open spec fn neg_spec(self) -> Duration {
        arbitrary()
    }
}

impl Neg for Duration {
    type Output = Duration;

    #[verifier::external_body]
    fn neg(self) -> (r: Duration)
        ensures
            r@ == -self@,
    {
        unimplemented!()
    }
}

#[verifier::external_body]
pub struct FixedOffset {
    o: u8,
}

#[verifier::external_body]
pub struct Tz {
    t: u8,
}

#[derive(Debug)]
pub struct VxTzError {
    e: u8,
}

/// the names chrono-tz knows (its generated table; trusted)
pub uninterp spec fn tz_valid(name: Seq<char>) -> bool;
pub uninterp spec fn tz_of(name: Seq<char>) -> Tz;

impl Tz {
    /// <Tz as FromStr>::from_str (N11): a pure table lookup
    #[verifier::external_body]
    pub fn from_str(s: &str) -> (r: Result<Tz, VxTzError>)
        ensures
            r is Ok <==> tz_valid(s@),
            r is Ok ==> r->Ok_0 == tz_of(s@),
    {
        unimplemented!()
    }
}

#[verifier::external_body]
#[verifier::reject_recursive_types(T)]
pub struct DateTime<T> {
    t: core::marker::PhantomData<T>,
}

impl<T> Clone for DateTime<T> {
    #[verifier::external_body]
    fn clone(&self) -> (r: DateTime<T>)
        ensures
            r == *self,
    {
        unimplemented!()
    }
}

impl<T> Copy for DateTime<T> {

}

impl<T> DateTime<T> {
    /// nanoseconds since the epoch
    pub uninterp spec fn instant(&self) -> int;

    #[verifier::external_body]
    pub fn checked_add_signed(self, rhs: Duration) -> (r: Option<DateTime<T>>)
        ensures
            r is Some ==> r->Some_0.instant() == self.instant() + rhs@,
    {
        unimplemented!()
    }

    #[verifier::external_body]
    pub fn checked_sub_signed(self, rhs: Duration) -> (r: Option<DateTime<T>>)
        ensures
            r is Some ==> r->Some_0.instant() == self.instant() - rhs@,
    {
        unimplemented!()
    }

    /// conversion to another zone keeps the instant
    #[verifier::external_body]
    pub fn with_timezone<Tz2: TimeZone>(&self, tz: &Tz2) -> (r: DateTime<Tz2>)
        ensures
            r.instant() == self.instant(),
    {
        unimplemented!()
    }
}

impl FixedOffset {
    /// Some iff the offset is strictly within +-24 h
    #[verifier::external_body]
    pub fn east_opt(secs: i32) -> (r: Option<FixedOffset>)
        ensures
            r is Some <==> -86400 < secs < 86400,
    {
        unimplemented!()
    }
}

impl Clone for Tz {
    #[verifier::external_body]
    fn clone(&self) -> (r: Tz) {
        unimplemented!()
    }
}

impl Copy for Tz {

}

impl DateTime<FixedOffset> {
    #[verifier::external_body]
    pub fn offset(&self) -> (r: &FixedOffset) {
        unimplemented!()
    }
}

impl<T> vstd::std_specs::ops::SubSpecImpl<DateTime<T>> for DateTime<T> {
    open spec fn obeys_sub_spec() -> bool {
        false
    }

    open spec fn sub_req(self, rhs: DateTime<T>) -> bool {
        true
    }

    open spec fn sub_spec(self, rhs: DateTime<T>) -> Duration {
        arbitrary()
    }
}

impl<T> Sub<DateTime<T>> for DateTime<T> {
    type Output = Duration;

    /// signed_duration_since: every pair of representable instants is within the Duration range
    #[verifier::external_body]
    fn sub(self, rhs: DateTime<T>) -> (r: Duration)
        ensures
            r@ == self.instant() - rhs.instant(),
            -duration_max_ns() <= r@ <= duration_max_ns(),
    {
        unimplemented!()
    }
}
