// ---- shims/btreeset.rs: generic BTreeSet operations (A-btree) ----
impl<K> BTreeSet<K> {
    #[verifier::external_body]
    pub fn get(&self, key: &K) -> (r: Option<&K>)
        ensures
            r is Some <==> self@.contains(*key),
            r is Some ==> *r->Some_0 == *key,
    {
        unimplemented!()
    }

    #[verifier::external_body]
    pub fn contains(&self, key: &K) -> (r: bool)
        ensures
            r == self@.contains(*key),
    {
        unimplemented!()
    }

    #[verifier::external_body]
    pub fn insert(&mut self, key: K) -> (r: bool)
        ensures
            final(self)@ == old(self)@.insert(key),
            r == !old(self)@.contains(key),
    {
        unimplemented!()
    }

    #[verifier::external_body]
    pub fn remove(&mut self, key: &K) -> (r: bool)
        ensures
            final(self)@ == old(self)@.remove(*key),
            r == old(self)@.contains(*key),
    {
        unimplemented!()
    }
}

/// Option<&Rc<T>>::cloned (N11): another handle to the same value
#[verifier::external_body]
pub fn vx_opt_cloned_rc<T>(o: Option<&Rc<T>>) -> (r: Option<Rc<T>>)
    ensures
        o is None ==> r is None,
        o is Some ==> r == Some(*o->Some_0),
{
    o.cloned()
}

impl BTreeSet<Rc<String>> {
    /// BTreeSet<Rc<String>>::get(&String) through Borrow<String>: the member with those contents
    #[verifier::external_body]
    pub fn get_string(&self, key: &String) -> (r: Option<&Rc<String>>)
        ensures
            r is Some ==> self@.contains(*r->Some_0) && (**r->Some_0)@ == key@,
    {
        unimplemented!()
    }
}
