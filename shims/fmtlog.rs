// ---- shims/fmtlog.rs: std::fmt::Formatter as a log of the format literals written to it (A-fmt) ----
// N6 turns `write!(f, "lit", args..)` into `vx_write(f, "lit")`: the literal is recorded, the arguments are
// dropped. A write may fail (fmt::Error); nothing is promised about the log then.
#[verifier::external_body]
pub struct Formatter<'a> {
    p: core::marker::PhantomData<&'a mut u8>,
}

pub struct FmtError {
    e: u8,
}

impl<'a> Formatter<'a> {
    pub uninterp spec fn log(&self) -> Seq<Seq<char>>;
}

#[verifier::external_body]
pub fn vx_write(f: &mut Formatter<'_>, lit: &str) -> (r: Result<(), FmtError>)
    ensures
        r is Ok ==> final(f).log() == old(f).log().push(lit@),
{
    unimplemented!()
}
