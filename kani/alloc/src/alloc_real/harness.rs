// One-step contracts of the sandbox allocator (C19). Every harness is
// loop-free and ranges over the full domain of the state (used, max, limit)
// and of the request, so a pass is a complete proof of the step contract
// (no unwinding bound is involved).
//
//   pre  (INV): used <= isize::MAX (A-address-space), max >= used,
//               1 <= size <= isize::MAX (GlobalAlloc caller obligation)
//   post      : see the named assertions; every name is an obligation id.
//
// The parent allocator is a nondeterministic stub (A-parent): it either fails
// (null) or returns some non-null block, and records how it was called.

use super::*;
use std::sync::atomic::Ordering::SeqCst;

static mut PARENT_CALLS: usize = 0;
static mut PARENT_RETURNED_NULL: bool = false;
static mut PARENT_DEALLOC_CALLS: usize = 0;

fn parent_result(p: *mut u8) -> *mut u8 {
    unsafe {
        PARENT_CALLS += 1;
    }
    if kani::any() {
        unsafe {
            PARENT_RETURNED_NULL = true;
        }
        core::ptr::null_mut()
    } else {
        p
    }
}

unsafe fn parent_alloc<A: GlobalAlloc>(_t: &A, _l: Layout) -> *mut u8 {
    parent_result(core::ptr::NonNull::<u64>::dangling().as_ptr() as *mut u8)
}
unsafe fn parent_realloc<A: GlobalAlloc>(_t: &A, p: *mut u8, _l: Layout, _n: usize) -> *mut u8 {
    parent_result(p)
}
unsafe fn parent_dealloc<A: GlobalAlloc>(_t: &A, _p: *mut u8, _l: Layout) {
    PARENT_DEALLOC_CALLS += 1;
}

const ADDR: usize = isize::MAX as usize;

struct St {
    used: usize,
    max: usize,
    limit: usize,
}

/// Any allocator state satisfying the history invariant.
fn any_state() -> (Alloc<System>, St) {
    let used: usize = kani::any();
    let max: usize = kani::any();
    let limit: usize = kani::any();
    kani::assume(used <= ADDR);
    kani::assume(max >= used);
    let a = Alloc {
        parent: System,
        used: AtomicUsize::new(used),
        max: AtomicUsize::new(max),
        limit: AtomicUsize::new(limit),
    };
    (a, St { used, max, limit })
}

fn any_layout() -> Layout {
    let size: usize = kani::any();
    let align: usize = kani::any();
    kani::assume(size >= 1);
    let l = Layout::from_size_align(size, align);
    kani::assume(l.is_ok());
    l.unwrap()
}

fn post(a: &Alloc<System>) -> St {
    St {
        used: a.used.load(SeqCst),
        max: a.max.load(SeqCst),
        limit: a.limit.load(SeqCst),
    }
}

fn check_alloc_like(zeroed: bool) {
    let (a, s) = any_state();
    let layout = any_layout();
    let size = layout.size();
    let p = unsafe {
        if zeroed {
            a.alloc_zeroed(layout)
        } else {
            a.alloc(layout)
        }
    };
    let t = post(&a);
    if !p.is_null() {
        kani::assert(t.used == s.used + size, "success_charges_exactly_size");
        kani::assert(t.used <= s.limit, "success_only_within_limit");
        kani::assert(unsafe { PARENT_CALLS } == 1, "success_comes_from_parent");
    } else {
        kani::assert(t.used == s.used, "refusal_leaves_usage_unchanged");
    }
    kani::assert(t.max >= s.max, "peak_is_monotone");
    kani::assert(t.max >= t.used, "peak_covers_usage");
    kani::assert(t.limit == s.limit, "limit_unchanged");
    kani::cover!(!p.is_null(), "reach_success");
    kani::cover!(p.is_null() && unsafe { PARENT_RETURNED_NULL }, "reach_parent_failure");
    kani::cover!(p.is_null() && unsafe { PARENT_CALLS } == 0, "reach_limit_refusal");
}

#[kani::proof]
#[kani::stub(<std::alloc::System as std::alloc::GlobalAlloc>::alloc, parent_alloc)]
fn alloc_step() {
    check_alloc_like(false);
}

#[kani::proof]
#[kani::stub(<std::alloc::System as std::alloc::GlobalAlloc>::alloc_zeroed, parent_alloc)]
fn alloc_zeroed_step() {
    check_alloc_like(true);
}

#[kani::proof]
#[kani::stub(<std::alloc::System as std::alloc::GlobalAlloc>::dealloc, parent_dealloc)]
fn dealloc_step() {
    let (a, s) = any_state();
    let layout = any_layout();
    let size = layout.size();
    // the block being freed is live, so it is part of `used`
    kani::assume(size <= s.used);
    let p = core::ptr::NonNull::<u64>::dangling().as_ptr() as *mut u8;
    unsafe { a.dealloc(p, layout) };
    let t = post(&a);
    kani::assert(t.used == s.used - size, "free_refunds_exactly_size");
    kani::assert(unsafe { PARENT_DEALLOC_CALLS } == 1, "free_reaches_parent_once");
    kani::assert(t.max >= s.max, "peak_is_monotone");
    kani::assert(t.max >= t.used, "peak_covers_usage");
    kani::assert(t.limit == s.limit, "limit_unchanged");
    kani::cover!(true, "reach_dealloc");
}

#[kani::proof]
#[kani::stub(<std::alloc::System as std::alloc::GlobalAlloc>::realloc, parent_realloc)]
fn realloc_step() {
    let (a, s) = any_state();
    let old_layout = any_layout();
    let old = old_layout.size();
    kani::assume(old <= s.used); // the old block is live
    let new: usize = kani::any();
    kani::assume(new >= 1);
    // GlobalAlloc::realloc caller obligation: new size rounded up to align fits isize
    kani::assume(Layout::from_size_align(new, old_layout.align()).is_ok());
    let p0 = core::ptr::NonNull::<u64>::dangling().as_ptr() as *mut u8;
    let p = unsafe { a.realloc(p0, old_layout, new) };
    let t = post(&a);
    if !p.is_null() {
        kani::assert(t.used == s.used - old + new, "success_charges_new_minus_old");
        kani::assert(t.used <= s.limit, "success_only_within_limit");
        kani::assert(unsafe { PARENT_CALLS } == 1, "success_comes_from_parent");
    } else {
        kani::assert(t.used == s.used, "refusal_leaves_usage_unchanged");
        kani::assert(
            unsafe { PARENT_CALLS == 0 || PARENT_RETURNED_NULL },
            "refusal_leaves_old_block_intact",
        );
    }
    kani::assert(t.max >= s.max, "peak_is_monotone");
    kani::assert(t.max >= t.used, "peak_covers_usage");
    kani::assert(t.limit == s.limit, "limit_unchanged");
    kani::cover!(!p.is_null() && new > old, "reach_grow");
    kani::cover!(!p.is_null() && new < old, "reach_shrink");
    kani::cover!(p.is_null() && unsafe { PARENT_RETURNED_NULL }, "reach_parent_failure");
    kani::cover!(p.is_null() && unsafe { PARENT_CALLS } == 0, "reach_limit_refusal");
}

#[kani::proof]
fn admin_step() {
    let (a, s) = any_state();
    kani::assert(a.get_max() == s.max, "get_max_reads_peak");
    a.reset_max();
    let t = post(&a);
    kani::assert(t.max == s.used, "reset_max_sets_peak_to_usage");
    kani::assert(t.used == s.used && t.limit == s.limit, "reset_max_frame");
    let l: usize = kani::any();
    a.set_limit(l);
    let u = post(&a);
    kani::assert(u.limit == l, "set_limit_sets_limit");
    kani::assert(u.used == t.used && u.max == t.max, "set_limit_frame");
    let b = Alloc::new(l);
    let v = post(&b);
    kani::assert(v.used == 0 && v.max == 0 && v.limit == l, "new_is_empty");
    kani::cover!(true, "reach_admin");
}

// ---------------------------------------------------------------------------
// Interference family (all schedules): the atomics of `used` return an
// arbitrary value (whatever other threads did), a ghost counter accumulates
// this operation's own net charge. Proves: net charge == +size on success,
// 0 on refusal, -size for free, new-old for a successful realloc, and that
// success implies observed-usage + size <= limit at the charging point.

static mut NET: i128 = 0;
static mut OBSERVED_AFTER_CHARGE: usize = 0;

fn havoc_fetch_add(_t: &AtomicUsize, v: usize, _o: Ordering) -> usize {
    let r: usize = kani::any();
    kani::assume(r <= ADDR);
    unsafe {
        NET += v as i128;
        OBSERVED_AFTER_CHARGE = r + v;
    }
    r
}
fn havoc_fetch_sub(_t: &AtomicUsize, v: usize, _o: Ordering) -> usize {
    let r: usize = kani::any();
    unsafe {
        NET -= v as i128;
    }
    r
}
fn havoc_fetch_max(_t: &AtomicUsize, _v: usize, _o: Ordering) -> usize {
    kani::any()
}

fn check_alloc_like_conc(zeroed: bool) {
    let (a, s) = any_state();
    let layout = any_layout();
    let size = layout.size();
    let p = unsafe {
        if zeroed {
            a.alloc_zeroed(layout)
        } else {
            a.alloc(layout)
        }
    };
    let net = unsafe { NET };
    if !p.is_null() {
        kani::assert(net == size as i128, "net_charge_on_success_is_size");
        kani::assert(
            unsafe { OBSERVED_AFTER_CHARGE } <= s.limit,
            "success_only_if_observed_usage_within_limit",
        );
    } else {
        kani::assert(net == 0, "net_charge_on_refusal_is_zero");
    }
    kani::cover!(!p.is_null(), "reach_success");
    kani::cover!(p.is_null(), "reach_refusal");
}

#[kani::proof]
#[kani::stub(<std::alloc::System as std::alloc::GlobalAlloc>::alloc, parent_alloc)]
#[kani::stub(std::sync::atomic::Atomic::<usize>::fetch_add, havoc_fetch_add)]
#[kani::stub(std::sync::atomic::Atomic::<usize>::fetch_sub, havoc_fetch_sub)]
#[kani::stub(std::sync::atomic::Atomic::<usize>::fetch_max, havoc_fetch_max)]
fn alloc_any_schedule() {
    check_alloc_like_conc(false);
}

#[kani::proof]
#[kani::stub(<std::alloc::System as std::alloc::GlobalAlloc>::alloc_zeroed, parent_alloc)]
#[kani::stub(std::sync::atomic::Atomic::<usize>::fetch_add, havoc_fetch_add)]
#[kani::stub(std::sync::atomic::Atomic::<usize>::fetch_sub, havoc_fetch_sub)]
#[kani::stub(std::sync::atomic::Atomic::<usize>::fetch_max, havoc_fetch_max)]
fn alloc_zeroed_any_schedule() {
    check_alloc_like_conc(true);
}

#[kani::proof]
#[kani::stub(<std::alloc::System as std::alloc::GlobalAlloc>::dealloc, parent_dealloc)]
#[kani::stub(std::sync::atomic::Atomic::<usize>::fetch_add, havoc_fetch_add)]
#[kani::stub(std::sync::atomic::Atomic::<usize>::fetch_sub, havoc_fetch_sub)]
#[kani::stub(std::sync::atomic::Atomic::<usize>::fetch_max, havoc_fetch_max)]
fn dealloc_any_schedule() {
    let (a, _s) = any_state();
    let layout = any_layout();
    let size = layout.size();
    let p = core::ptr::NonNull::<u64>::dangling().as_ptr() as *mut u8;
    unsafe { a.dealloc(p, layout) };
    kani::assert(unsafe { NET } == -(size as i128), "net_charge_of_free_is_minus_size");
    kani::cover!(true, "reach_dealloc");
}

#[kani::proof]
#[kani::stub(<std::alloc::System as std::alloc::GlobalAlloc>::realloc, parent_realloc)]
#[kani::stub(std::sync::atomic::Atomic::<usize>::fetch_add, havoc_fetch_add)]
#[kani::stub(std::sync::atomic::Atomic::<usize>::fetch_sub, havoc_fetch_sub)]
#[kani::stub(std::sync::atomic::Atomic::<usize>::fetch_max, havoc_fetch_max)]
fn realloc_any_schedule() {
    let (a, s) = any_state();
    let old_layout = any_layout();
    let old = old_layout.size();
    let new: usize = kani::any();
    kani::assume(new >= 1);
    kani::assume(Layout::from_size_align(new, old_layout.align()).is_ok());
    let p0 = core::ptr::NonNull::<u64>::dangling().as_ptr() as *mut u8;
    let p = unsafe { a.realloc(p0, old_layout, new) };
    let net = unsafe { NET };
    if !p.is_null() {
        kani::assert(net == new as i128 - old as i128, "net_charge_on_success_is_new_minus_old");
        kani::assert(
            unsafe { OBSERVED_AFTER_CHARGE } <= s.limit,
            "success_only_if_observed_usage_within_limit",
        );
    } else {
        kani::assert(net == 0, "net_charge_on_refusal_is_zero");
    }
    kani::cover!(!p.is_null(), "reach_success");
    kani::cover!(p.is_null(), "reach_refusal");
}
