// Harness crate for property C19. The allocator under proof is the real
// /repo/sandbox/src/alloc.rs, textually included (no copy, no extraction);
// the harness module is a child module and therefore sees the private
// atomics. See /verif/DESIGN.md 5.19.
#![allow(dead_code, unused_imports)]

pub mod alloc_real {
    include!(concat!(env!("VX_REPO"), "/sandbox/src/alloc.rs"));

    #[cfg(kani)]
    mod harness;
}
