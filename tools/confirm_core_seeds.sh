#!/bin/sh
# usage: confirm_core_seeds.sh <prop> <k...>  (worktree /tmp/seed_<prop>): demo both directions + full suite with the patch
P=$1; shift
WT=/tmp/seed_$P
for K in "$@"; do
  SD=$WT/SEEDS/$K
  cd $WT && git checkout -q -- . && rm -f core/tests/seed_demo_*.rs
  cp $SD/demo.rs core/tests/seed_demo_$K.rs
  cargo test --offline -p rink-core --all-features --test seed_demo_$K > $WT/c1.log 2>&1; a=$?
  git apply $SD/patch.diff || { echo "$P-$K patch does not apply"; continue; }
  cargo test --offline -p rink-core --all-features --test seed_demo_$K > $WT/c2.log 2>&1; b=$?
  rm -f core/tests/seed_demo_$K.rs
  cargo test --workspace --no-fail-fast --offline > $WT/suite.log 2>&1
  p=$(grep -E "^test result" $WT/suite.log | sed -E 's/.* ([0-9]+) passed.*/\1/' | paste -sd+ | bc)
  f=$(grep -E "^test result" $WT/suite.log | sed -E 's/.*; ([0-9]+) failed.*/\1/' | paste -sd+ | bc)
  echo "$P-$K: demo without patch rc=$a (want 0), with patch rc=$b (want !=0); suite with patch passed=$p failed=$f"
  git checkout -q -- .
done
