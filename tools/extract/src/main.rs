// vx-extract: builds one Verus file from a contract template and the real
// sources under <repo>. See /verif/DESIGN.md section 2.
//
// usage: vx-extract <repo> <template.vx.rs> <shim-dir> <out.rs> <log.json>
//
// exit 0: out.rs written; exit 3: extraction undecided (lost anchor, signature
// mismatch, construct outside the catalogue) -- reason in log.json and stderr.
//
// The extractor never pretty-prints. It copies the original bytes of each
// function body and applies text edits at syn spans. Every edit is logged.

mod index;
mod rewrite;

use serde_json::{json, Value};
use std::fs;

pub struct Undecided(pub String);

macro_rules! bail {
    ($($t:tt)*) => { return Err(Undecided(format!($($t)*))) };
}
pub(crate) use bail;

fn main() {
    let args: Vec<String> = std::env::args().collect();
    if args.len() != 6 {
        eprintln!("usage: vx-extract <repo> <template> <shim-dir> <out.rs> <log.json>");
        std::process::exit(64);
    }
    let (repo, template, shimdir, out, log) = (&args[1], &args[2], &args[3], &args[4], &args[5]);
    let mut logv = json!({"template": template, "repo": repo, "slots": [], "types": [], "includes": []});
    match run(repo, template, shimdir, &mut logv) {
        Ok(text) => {
            fs::write(out, text).expect("write out");
            logv["status"] = json!("ok");
            fs::write(log, serde_json::to_string_pretty(&logv).unwrap()).expect("write log");
        }
        Err(Undecided(why)) => {
            eprintln!("vx-extract: undecided: {}", why);
            logv["status"] = json!("undecided");
            logv["reason"] = json!(why);
            fs::write(log, serde_json::to_string_pretty(&logv).unwrap()).expect("write log");
            std::process::exit(3);
        }
    }
}

fn count_lines(s: &str) -> usize {
    s.bytes().filter(|b| *b == b'\n').count()
}

#[derive(Default, Clone)]
pub struct SlotSpec {
    pub name: String,
    pub locator: String,
    pub props: Vec<String>,
    pub sig: String,
    pub loops: Vec<(usize, Option<String>, String)>, // ordinal, iter name, clauses
    pub kloops: Vec<(String, usize, Option<String>, String)>, // kind, ordinal within kind, iter name, clauses
    pub closures: Vec<(usize, String)>,              // ordinal, header replacement
    pub hints: Vec<(String, String)>,                // where, text
    pub substs: Vec<(String, String)>,
    pub ufcs_all: bool,
    pub ufcs_idents: Vec<String>,
    pub no_ufcs_idents: Vec<String>,
    pub expand: Vec<String>,
    pub retarget: Vec<(String, String)>,
    pub lift_return: Option<String>,
    pub letlifts: Vec<(String, usize, String)>, // method name, ordinal, variable
    pub self_name: Option<String>,
    pub wrap_tail: Option<String>,              // `//@wrap_tail F`: the tail expression E of a lifted body becomes F(E)              // `//@self NAME`: `self` in a lifted body becomes NAME
    pub tline: usize,
}

pub fn one_line_pub(s: &str) -> String {
    one_line(s)
}

fn one_line(s: &str) -> String {
    s.split_whitespace().collect::<Vec<_>>().join(" ")
}

fn parse_quoted_pair(s: &str) -> Option<(String, String)> {
    // "a" => "b"
    let s = s.trim();
    let (a, rest) = parse_quoted(s)?;
    let rest = rest.trim_start();
    let rest = rest.strip_prefix("=>")?.trim_start();
    let (b, _) = parse_quoted(rest)?;
    Some((a, b))
}

pub fn parse_quoted(s: &str) -> Option<(String, &str)> {
    let s = s.trim_start();
    let mut chars = s.char_indices();
    match chars.next() {
        Some((_, '"')) => {}
        _ => return None,
    }
    let mut out = String::new();
    let mut esc = false;
    for (i, c) in chars {
        if esc {
            match c {
                'n' => out.push('\n'),
                _ => out.push(c),
            }
            esc = false;
        } else if c == '\\' {
            esc = true;
        } else if c == '"' {
            return Some((out, &s[i + 1..]));
        } else {
            out.push(c);
        }
    }
    None
}

fn run(repo: &str, template: &str, shimdir: &str, logv: &mut Value) -> Result<String, Undecided> {
    let mut ttext = String::new();
    expand_parts(template, &mut ttext, 0)?;
    let mut idx: Option<index::Index> = None;
    let mut out = String::new();
    let mut retarget: Vec<(String, String)> = vec![];
    let mut unit_props: Vec<String> = vec![];
    let mut cur: Option<SlotSpec> = None;
    let mut in_sig = false;
    let mut roots: Vec<String> = vec!["core/src".into(), "sandbox/src".into()];

    let lines: Vec<&str> = ttext.lines().collect();
    let mut i = 0;
    while i < lines.len() {
        let line = lines[i];
        let tline = i + 1;
        i += 1;
        let t = line.trim_start();
        if !t.starts_with("//@") {
            if let Some(s) = cur.as_mut() {
                if in_sig {
                    s.sig.push_str(line);
                    s.sig.push('\n');
                    continue;
                }
                bail!("template line {}: text inside slot '{}' after directives", tline, s.name);
            }
            out.push_str(line);
            out.push('\n');
            continue;
        }
        // a directive; continuation lines start with "//@+"
        let mut d = t[3..].trim().to_string();
        while i < lines.len() && lines[i].trim_start().starts_with("//@+") {
            d.push(' ');
            d.push_str(lines[i].trim_start()[4..].trim());
            i += 1;
        }
        let (kw, rest) = match d.find(|c: char| c.is_whitespace()) {
            Some(p) => (d[..p].to_string(), d[p..].trim().to_string()),
            None => (d.clone(), String::new()),
        };
        match kw.as_str() {
            "unit" | "note" => {}
            "roots" => roots = rest.split_whitespace().map(|s| s.to_string()).collect(),
            "property" => {
                if let Some(s) = cur.as_mut() {
                    s.props = rest.split_whitespace().map(|s| s.to_string()).collect();
                } else {
                    unit_props = rest.split_whitespace().map(|s| s.to_string()).collect();
                }
            }
            "include" => {
                let p = format!("{}/{}", shimdir, rest);
                let txt = fs::read_to_string(&p).map_err(|e| Undecided(format!("include {}: {}", p, e)))?;
                let start = count_lines(&out) + 1;
                out.push_str(&txt);
                if !txt.ends_with('\n') {
                    out.push('\n');
                }
                logv["includes"].as_array_mut().unwrap().push(json!({
                    "file": rest, "out_line_start": start, "out_line_end": count_lines(&out)}));
            }
            "retarget" => {
                let (a, b) = rest.split_once("=>").ok_or_else(|| Undecided(format!("template line {}: bad retarget", tline)))?;
                if let Some(s) = cur.as_mut() {
                    in_sig = false;
                    s.retarget.push((a.trim().to_string(), b.trim().to_string()));
                } else {
                    retarget.push((a.trim().to_string(), b.trim().to_string()));
                }
            }
            "lift_return" => {
                let s = cur.as_mut().ok_or_else(|| Undecided(format!("template line {}: lift_return outside slot", tline)))?;
                in_sig = false;
                s.lift_return = Some(rest.trim().to_string());
            }
            "type" => {
                if idx.is_none() {
                    idx = Some(index::Index::build(repo, &roots)?);
                }
                let start = count_lines(&out) + 1;
                let (text, info) = idx.as_ref().unwrap().extract_type(&rest)?;
                out.push_str(&text);
                out.push('\n');
                let mut info = info;
                info["out_line_start"] = json!(start);
                info["out_line_end"] = json!(count_lines(&out));
                logv["types"].as_array_mut().unwrap().push(info);
            }
            "slot" => {
                if cur.is_some() {
                    bail!("template line {}: nested slot", tline);
                }
                let (name, loc) = rest.split_once(": ").ok_or_else(|| Undecided(format!("template line {}: slot needs 'name: locator'", tline)))?;
                cur = Some(SlotSpec { name: name.trim().into(), locator: loc.trim().into(), props: unit_props.clone(), tline, ..Default::default() });
                in_sig = true;
            }
            "loop" | "closure" | "hint" | "subst" | "ufcs" | "noufcs" | "expand" | "letlift" | "self" | "wrap_tail" => {
                let s = cur.as_mut().ok_or_else(|| Undecided(format!("template line {}: '{}' outside slot", tline, kw)))?;
                in_sig = false;
                match kw.as_str() {
                    "loop" => {
                        // loop N [iter=name]: clauses
                        let (head, body) = rest.split_once(':').ok_or_else(|| Undecided(format!("template line {}: bad loop", tline)))?;
                        let mut hp = head.split_whitespace();
                        let ord = hp.next().ok_or_else(|| Undecided(format!("template line {}: bad loop ordinal", tline)))?;
                        let it = hp.next().and_then(|x| x.strip_prefix("iter=")).map(|x| x.to_string());
                        if let Some((kind, n)) = ord.split_once('#') {
                            let n: usize = n.parse().map_err(|_| Undecided(format!("template line {}: bad loop ordinal", tline)))?;
                            if !["loop", "for", "while"].contains(&kind) {
                                bail!("template line {}: loop kind must be loop/for/while", tline);
                            }
                            s.kloops.push((kind.to_string(), n, it, one_line(body)));
                        } else {
                            let n: usize = ord.parse().map_err(|_| Undecided(format!("template line {}: bad loop ordinal", tline)))?;
                            s.loops.push((n, it, one_line(body)));
                        }
                    }
                    "closure" => {
                        let (head, body) = rest.split_once(':').ok_or_else(|| Undecided(format!("template line {}: bad closure", tline)))?;
                        let n: usize = head.trim().parse().map_err(|_| Undecided(format!("template line {}: bad closure ordinal", tline)))?;
                        s.closures.push((n, one_line(body)));
                    }
                    "hint" => {
                        // hint <where>: text    where := head | tail | loop_start N | loop_end N | before "anchor" | after "anchor"
                        let (w, body) = split_hint(&rest).ok_or_else(|| Undecided(format!("template line {}: bad hint", tline)))?;
                        s.hints.push((w, one_line(&body)));
                    }
                    "self" => {
                        s.self_name = Some(rest.trim().to_string());
                    }
                    "wrap_tail" => {
                        s.wrap_tail = Some(rest.trim().to_string());
                    }
                    "letlift" => {
                        // letlift .method#k as name
                        let ws: Vec<&str> = rest.split_whitespace().collect();
                        if ws.len() != 3 || ws[1] != "as" || !ws[0].starts_with('.') {
                            bail!("template line {}: letlift needs `.method#k as name`", tline);
                        }
                        let (mn, mk) = ws[0][1..].split_once('#').unwrap_or((&ws[0][1..], "0"));
                        let mk: usize = mk.parse().map_err(|_| Undecided(format!("template line {}: bad letlift ordinal", tline)))?;
                        s.letlifts.push((mn.to_string(), mk, ws[2].to_string()));
                    }
                    "subst" => {
                        let p = parse_quoted_pair(&rest).ok_or_else(|| Undecided(format!("template line {}: bad subst", tline)))?;
                        s.substs.push(p);
                    }
                    "ufcs" => {
                        for w in rest.split_whitespace() {
                            if w == "all" {
                                s.ufcs_all = true;
                            } else {
                                s.ufcs_idents.push(w.to_string());
                            }
                        }
                    }
                    "noufcs" => {
                        for w in rest.split_whitespace() {
                            s.no_ufcs_idents.push(w.to_string());
                        }
                    }
                    "expand" => {
                        for w in rest.split_whitespace() {
                            s.expand.push(w.to_string());
                        }
                    }
                    _ => unreachable!(),
                }
            }
            "body" | "sigonly" => {
                let mut s = cur.take().ok_or_else(|| Undecided(format!("template line {}: body outside slot", tline)))?;
                in_sig = false;
                // adapted mode: the driver may ask to drop the ghost hints of a slot whose body changed shape
                let nohint = std::env::var("VX_NOHINT").unwrap_or_default();
                if nohint.split(';').any(|x| x.trim() == s.name) {
                    s.hints.clear();
                }
                if idx.is_none() {
                    idx = Some(index::Index::build(repo, &roots)?);
                }
                let ix = idx.as_ref().unwrap();
                let found = ix.locate(&s.locator).map_err(|Undecided(e)| Undecided(format!("slot '{}': {}", s.name, e)))?;
                index::check_sig(&s, &found)?;
                let sig_start = count_lines(&out) + 1;
                out.push_str(&s.sig);
                let body_out_start = count_lines(&out) + 1;
                let (body, rewrites) = rewrite::rewrite_body(&s, &found, &retarget, ix)
                    .map_err(|Undecided(e)| Undecided(format!("slot '{}' ({}): {}", s.name, found.origin, e)))?;
                out.push_str(&body);
                out.push('\n');
                logv["slots"].as_array_mut().unwrap().push(json!({
                    "name": s.name, "locator": s.locator, "props": s.props,
                    "template_line": s.tline,
                    "file": found.file, "origin": found.origin,
                    "src_line_start": found.item_line_start, "src_line_end": found.item_line_end,
                    "src_body_line": found.body_line_start,
                    "item_text": found.item_text,
                    "out_sig_line": sig_start,
                    "out_body_line_start": body_out_start, "out_body_line_end": count_lines(&out),
                    "rewrites": rewrites,
                    "n_loops": s.loops.len(), "n_hints": s.hints.len(), "n_closures": s.closures.len(),
                    "n_substs": s.substs.len(),
                }));
            }
            "autoslots" => {
                // helpers the real code calls that have no slot: named by the driver after a first
                // verification attempt (VX_AUTO="Type::name;name2"), extracted with their real
                // signature and NO contract (adapted mode, see DESIGN 4.2)
                let auto = std::env::var("VX_AUTO").unwrap_or_default();
                if idx.is_none() {
                    idx = Some(index::Index::build(repo, &roots)?);
                }
                let ix = idx.as_ref().unwrap();
                for item in auto.split(';').map(|x| x.trim()).filter(|x| !x.is_empty()) {
                    let (ty, name) = match item.rsplit_once("::") {
                        Some((t, n)) => (Some(t.to_string()), n.to_string()),
                        None => (None, item.to_string()),
                    };
                    let locator = match &ty {
                        Some(t) => format!("impl {} fn {}", t, name),
                        None => format!("fn {}", name),
                    };
                    let found = match ix.locate(&locator) {
                        Ok(f) => f,
                        Err(Undecided(e)) => bail!("auto slot '{}': {}", item, e),
                    };
                    let spec = SlotSpec { name: format!("auto::{}", item), locator: locator.clone(), props: unit_props.clone(), tline, ..Default::default() };
                    let (body, rewrites) = rewrite::rewrite_body(&spec, &found, &retarget, ix)
                        .map_err(|Undecided(e)| Undecided(format!("auto slot '{}' ({}): {}", item, found.origin, e)))?;
                    let sig_start = count_lines(&out) + 1;
                    if let Some(t) = &ty {
                        out.push_str(&format!("impl {} {{\n", t));
                    }
                    out.push_str("#[verifier::exec_allows_no_decreases_clause]\n");
                    out.push_str(&found.sig_src);
                    out.push('\n');
                    let body_out_start = count_lines(&out) + 1;
                    out.push_str(&body);
                    out.push('\n');
                    let body_end = count_lines(&out);
                    if ty.is_some() {
                        out.push_str("}\n");
                    }
                    logv["slots"].as_array_mut().unwrap().push(json!({
                        "name": spec.name, "locator": locator, "props": spec.props, "auto": true,
                        "template_line": tline, "file": found.file, "origin": found.origin,
                        "src_line_start": found.item_line_start, "src_line_end": found.item_line_end,
                        "src_body_line": found.body_line_start, "item_text": found.item_text,
                        "out_sig_line": sig_start, "out_body_line_start": body_out_start, "out_body_line_end": body_end,
                        "rewrites": rewrites, "n_loops": 0, "n_hints": 0, "n_closures": 0, "n_substs": 0,
                    }));
                }
            }
            other => bail!("template line {}: unknown directive '{}'", tline, other),
        }
    }
    if let Some(s) = cur {
        bail!("slot '{}' not closed by //@body", s.name);
    }
    Ok(out)
}

/// `//@part name` includes units/parts/<name>.vxp (recursively), textually.
fn expand_parts(path: &str, out: &mut String, depth: usize) -> Result<(), Undecided> {
    if depth > 8 {
        bail!("part inclusion too deep at {}", path);
    }
    let text = fs::read_to_string(path).map_err(|e| Undecided(format!("template {}: {}", path, e)))?;
    let dir = std::path::Path::new(path).parent().unwrap().to_path_buf();
    for line in text.lines() {
        let t = line.trim_start();
        if let Some(rest) = t.strip_prefix("//@part ") {
            let name = rest.trim();
            let mut p = dir.join("parts").join(format!("{}.vxp", name));
            if !p.exists() {
                p = dir.join(format!("{}.vxp", name));
            }
            out.push_str(&format!("// ---- part {} ----\n", name));
            expand_parts(&p.to_string_lossy(), out, depth + 1)?;
        } else {
            out.push_str(line);
            out.push('\n');
        }
    }
    Ok(())
}

fn split_hint(rest: &str) -> Option<(String, String)> {
    let r = rest.trim_start();
    for kw in ["before", "after"] {
        if let Some(x) = r.strip_prefix(&format!("{} ", kw)) {
            let (q, after) = parse_quoted(x)?;
            let after = after.trim_start().strip_prefix(':')?;
            return Some((format!("{} {}", kw, q), after.to_string()));
        }
    }
    let (w, body) = r.split_once(':')?;
    Some((one_line(w), body.to_string()))
}
