// Item index over the repository sources and slot location.

use crate::{bail, parse_quoted, SlotSpec, Undecided};
use quote::ToTokens;
use serde_json::{json, Value};
use std::fs;
use syn::spanned::Spanned;

pub struct SrcFile {
    pub path: String, // relative to repo
    pub text: String,
    pub ast: syn::File,
    pub line_base: usize, // 0 for real files; for macro expansions: line of the macro body start - 1
}

pub struct Index {
    pub files: Vec<SrcFile>,
}

pub struct Found {
    pub file: String,
    pub origin: String, // human readable: file:line (+ macro / arm info)
    pub item_text: String,
    pub item_line_start: usize,
    pub item_line_end: usize,
    pub body_text: String, // "{ ... }"
    pub body_line_start: usize,
    pub sig_norm: Option<String>,
    pub sig_text: String,
    pub sig_src: String,
    pub lifted: Option<String>,
}

pub fn norm(s: &str) -> String {
    // whitespace-insensitive; a trailing comma before a closing bracket (rustfmt's vertical layout) is not part of the text
    let t: String = s.chars().filter(|c| !c.is_whitespace()).collect();
    t.replace(",)", ")").replace(",>", ">")
}

fn walk(dir: &std::path::Path, out: &mut Vec<std::path::PathBuf>) {
    if let Ok(rd) = fs::read_dir(dir) {
        let mut ents: Vec<_> = rd.filter_map(|e| e.ok()).map(|e| e.path()).collect();
        ents.sort();
        for p in ents {
            if p.is_dir() {
                walk(&p, out);
            } else if p.extension().map(|e| e == "rs").unwrap_or(false) {
                out.push(p);
            }
        }
    }
}

pub fn line_of(text: &str, byte: usize) -> usize {
    text[..byte].bytes().filter(|b| *b == b'\n').count() + 1
}

enum Owner {
    Free,
    Inherent(String),
    Trait(String, String),
}

struct FnRef<'a> {
    owner: Owner,
    sig: &'a syn::Signature,
    block: &'a syn::Block,
    item_range: std::ops::Range<usize>,
}

fn collect_fns<'a>(items: &'a [syn::Item], out: &mut Vec<FnRef<'a>>) {
    for it in items {
        match it {
            syn::Item::Fn(f) => out.push(FnRef { owner: Owner::Free, sig: &f.sig, block: &f.block, item_range: f.span().byte_range() }),
            syn::Item::Impl(im) => {
                let ty = norm(&im.self_ty.to_token_stream().to_string());
                let owner = |_: ()| match &im.trait_ {
                    Some((_, p, _)) => Owner::Trait(norm(&p.to_token_stream().to_string()), ty.clone()),
                    None => Owner::Inherent(ty.clone()),
                };
                for ii in &im.items {
                    if let syn::ImplItem::Fn(f) = ii {
                        out.push(FnRef { owner: owner(()), sig: &f.sig, block: &f.block, item_range: f.span().byte_range() });
                    }
                }
            }
            syn::Item::Mod(m) => {
                // skip #[cfg(test)] modules
                let is_test = m.attrs.iter().any(|a| a.to_token_stream().to_string().replace(' ', "").contains("cfg(test)"));
                if is_test {
                    continue;
                }
                if let Some((_, items)) = &m.content {
                    collect_fns(items, out);
                }
            }
            _ => {}
        }
    }
}

impl Index {
    pub fn build(repo: &str, roots: &[String]) -> Result<Index, Undecided> {
        let mut files = vec![];
        for r in roots {
            let mut paths = vec![];
            walk(&std::path::Path::new(repo).join(r), &mut paths);
            for p in paths {
                let text = fs::read_to_string(&p).map_err(|e| Undecided(format!("read {}: {}", p.display(), e)))?;
                let rel = p.strip_prefix(repo).unwrap().to_string_lossy().trim_start_matches('/').to_string();
                let ast = match syn::parse_file(&text) {
                    Ok(a) => a,
                    Err(e) => bail!("{} does not parse: {}", rel, e),
                };
                files.push(SrcFile { path: rel, text, ast, line_base: 0 });
            }
        }
        if files.is_empty() {
            bail!("no source files under {} {:?}", repo, roots);
        }
        Ok(Index { files })
    }

    /// Expand `macro_rules! name` (single arm, only $x:ident/expr/ty params) with args -> virtual file.
    pub fn expand_macro(&self, name: &str, args: &str, in_file: Option<&str>) -> Result<SrcFile, Undecided> {
        let mut hits = vec![];
        for f in &self.files {
            if let Some(p) = in_file {
                if f.path != p {
                    continue;
                }
            }
            find_macro_defs(&f.ast.items, name, f, &mut hits);
        }
        if hits.len() != 1 {
            bail!("macro_rules! {}: {} definitions found", name, hits.len());
        }
        let (f, mac) = hits.pop().unwrap();
        let (params, body_range) = parse_macro_rules(mac, &f.text)?;
        let argv: Vec<String> = split_top_commas(args);
        if argv.len() != params.len() {
            bail!("macro {}: {} params, {} args", name, params.len(), argv.len());
        }
        // the expansion stands for code only where the macro is actually invoked with these arguments: an item-position
        // invocation `name!(args);` must exist in the file that defines it (exactly once)
        {
            let want = norm(args);
            let mut n = 0;
            fn scan(items: &[syn::Item], name: &str, want: &str, n: &mut usize) {
                for it in items {
                    match it {
                        syn::Item::Macro(m) => {
                            if m.mac.path.is_ident(name) && norm(&m.mac.tokens.to_string()) == want {
                                *n += 1;
                            }
                        }
                        syn::Item::Mod(md) => {
                            if let Some((_, items)) = &md.content {
                                scan(items, name, want, n);
                            }
                        }
                        _ => {}
                    }
                }
            }
            scan(&f.ast.items, name, &want, &mut n);
            if n != 1 {
                bail!("lost anchor: the invocation {}!({}) occurs {} times in {}", name, args, n, f.path);
            }
        }
        let mut body = f.text[body_range.clone()].to_string();
        // longest names first so that $func does not clobber $function
        let mut order: Vec<usize> = (0..params.len()).collect();
        order.sort_by_key(|i| std::cmp::Reverse(params[*i].len()));
        for i in order {
            body = replace_metavar(&body, &params[i], argv[i].trim());
        }
        let line_base = line_of(&f.text, body_range.start) - 1;
        let ast = syn::parse_file(&body).map_err(|e| Undecided(format!("expansion of {}!({}) does not parse as items: {}", name, args, e)))?;
        Ok(SrcFile { path: f.path.clone(), text: body, ast, line_base })
    }

    /// Textual expansion of an expression-position macro invocation.
    pub fn expand_macro_text(&self, name: &str, args: &str, in_file: Option<&str>) -> Result<String, Undecided> {
        let mut hits = vec![];
        for f in &self.files {
            if let Some(p) = in_file {
                if f.path != p {
                    continue;
                }
            }
            find_macro_defs(&f.ast.items, name, f, &mut hits);
        }
        if hits.len() != 1 {
            bail!("macro_rules! {}: {} definitions found", name, hits.len());
        }
        let (f, mac) = hits.pop().unwrap();
        let (params, body_range) = parse_macro_rules(mac, &f.text)?;
        let argv: Vec<String> = split_top_commas(args);
        if argv.len() != params.len() {
            bail!("macro {}: {} params, {} args", name, params.len(), argv.len());
        }
        let mut body = f.text[body_range].to_string();
        let mut order: Vec<usize> = (0..params.len()).collect();
        order.sort_by_key(|i| std::cmp::Reverse(params[*i].len()));
        for i in order {
            body = replace_metavar(&body, &params[i], argv[i].trim());
        }
        Ok(format!("{{ {} }}", body.trim()))
    }

    pub fn locate(&self, locator: &str) -> Result<Found, Undecided> {
        // alternatives `A || B`: the same function may be written in more than one way (through a macro, or by hand);
        // the first form that is found is taken
        if locator.contains(" || ") {
            let mut last = None;
            for alt in locator.split(" || ") {
                match self.locate(alt) {
                    Ok(f) => return Ok(f),
                    Err(e) => last = Some(e),
                }
            }
            return Err(last.unwrap());
        }
        let mut loc = locator.trim().to_string();
        let mut nosig = false;
        if let Some(x) = loc.strip_suffix(" nosig") {
            nosig = true;
            loc = x.trim().to_string();
        }
        let mut in_file: Option<String> = None;
        if let Some(p) = loc.rfind(" in ") {
            let cand = loc[p + 4..].trim();
            if cand.ends_with(".rs") {
                in_file = Some(cand.to_string());
                loc = loc[..p].trim().to_string();
            }
        }
        // lifted forms
        if let Some(rest) = loc.strip_prefix("arm ") {
            let (pat, after) = parse_quoted(rest).ok_or_else(|| Undecided("arm locator needs a quoted pattern".into()))?;
            let after = after.trim();
            let (nth, after) = if let Some(x) = after.strip_prefix("nth ") {
                let (n, r) = x.trim().split_once(' ').ok_or_else(|| Undecided("bad nth".into()))?;
                (n.parse::<usize>().map_err(|_| Undecided("bad nth".into()))?, r.trim())
            } else {
                (0usize, after)
            };
            // optional: after "PATTERN" -- an earlier arm of the same match must have exactly this pattern
            let (after_pat, after) = if let Some(x) = after.strip_prefix("after ") {
                let (p2, r) = parse_quoted(x).ok_or_else(|| Undecided("arm locator: after needs a quoted pattern".into()))?;
                (Some(p2), r.trim())
            } else {
                (None, after)
            };
            let inner = after.strip_prefix("of ").ok_or_else(|| Undecided("arm locator needs 'of <fn locator>'".into()))?;
            let inner = match &in_file {
                Some(f) => format!("{} in {}", inner, f),
                None => inner.to_string(),
            };
            let f = self.locate(&format!("{} nosig", inner))?;
            return lift_arm(f, &pat, nth, after_pat.as_deref());
        }
        if let Some(rest) = loc.strip_prefix("nested fn ") {
            // `nested fn NAME of <fn locator>`: a function item declared inside the body of another function
            let (name, inner) = rest.split_once(" of ").ok_or_else(|| Undecided("nested fn locator needs 'of <fn locator>'".into()))?;
            let inner = match &in_file {
                Some(f) => format!("{} in {}", inner.trim(), f),
                None => inner.trim().to_string(),
            };
            let f = self.locate(&format!("{} nosig", inner))?;
            return lift_nested_fn(f, name.trim());
        }
        if let Some(rest) = loc.strip_prefix("closure ") {
            // `closure "PARAMS" of <fn locator>`: the body of the closure whose parameter list (between the bars) is PARAMS,
            // lifted into a function (N9); the template's signature names the parameters and the captured variables
            let (pars, after) = parse_quoted(rest).ok_or_else(|| Undecided("closure locator needs the quoted parameter list".into()))?;
            let inner = after.trim().strip_prefix("of ").ok_or_else(|| Undecided("closure locator needs 'of <fn locator>'".into()))?;
            let inner = match &in_file {
                Some(f) => format!("{} in {}", inner, f),
                None => inner.to_string(),
            };
            let f = self.locate(&format!("{} nosig", inner))?;
            return lift_closure(f, &pars);
        }
        if let Some(rest) = loc.strip_prefix("stmts ") {
            let (first, after) = parse_quoted(rest).ok_or_else(|| Undecided("stmts locator needs quoted first statement prefix".into()))?;
            let after = after.trim().strip_prefix("..").ok_or_else(|| Undecided("stmts locator needs '..'".into()))?;
            let (last, after) = parse_quoted(after).ok_or_else(|| Undecided("stmts locator needs quoted last statement prefix".into()))?;
            let inner = after.trim().strip_prefix("of ").ok_or_else(|| Undecided("stmts locator needs 'of <fn locator>'".into()))?;
            let inner = match &in_file {
                Some(f) => format!("{} in {}", inner, f),
                None => inner.to_string(),
            };
            let f = self.locate(&format!("{} nosig", inner))?;
            return lift_stmts(f, &first, &last);
        }
        if let Some(rest) = loc.strip_prefix("macro ") {
            let open = rest.find('(').ok_or_else(|| Undecided("macro locator needs (args)".into()))?;
            let name = rest[..open].trim();
            let mut depth = 0;
            let mut close = None;
            for (i, c) in rest.char_indices().skip(open) {
                if c == '(' {
                    depth += 1;
                } else if c == ')' {
                    depth -= 1;
                    if depth == 0 {
                        close = Some(i);
                        break;
                    }
                }
            }
            let close = close.ok_or_else(|| Undecided("macro locator: unbalanced".into()))?;
            let args = &rest[open + 1..close];
            let inner = rest[close + 1..].trim();
            let vf = self.expand_macro(name, args, in_file.as_deref())?;
            let mut f = locate_in(std::slice::from_ref(&vf), inner, None)?;
            f.origin = format!("{} via {}!({})", f.origin, name, args);
            if nosig {
                f.sig_norm = None;
            }
            return Ok(f);
        }
        if let Some(rest) = loc.strip_prefix("func ") {
            // `func!(fn name(args) { body })` invocations inside a function body (eval.rs)
            return self.locate_func_macro(rest.trim(), in_file.as_deref());
        }
        let mut f = locate_in(&self.files, &loc, in_file.as_deref())?;
        if nosig {
            f.sig_norm = None;
        }
        Ok(f)
    }

    fn locate_func_macro(&self, name: &str, in_file: Option<&str>) -> Result<Found, Undecided> {
        // `NAME @ PATTERN`: the invocation must be the body of the match arm `PATTERN => func!(fn NAME ..)`, so that the
        // body that is verified is the one that runs for that variant
        let (name, arm) = match name.split_once(" @ ") {
            Some((n, a)) => (n.trim(), Some(norm(a))),
            None => (name, None),
        };
        let mut hits = vec![];
        for f in &self.files {
            if let Some(p) = in_file {
                if f.path != p {
                    continue;
                }
            }
            // textual scan for `func!(` then parse the argument as ItemFn
            let mut from = 0;
            while let Some(p) = f.text[from..].find("func!(") {
                let start = from + p + "func!(".len();
                from = start;
                // find matching paren
                let mut depth = 1i32;
                let mut end = None;
                let bytes = f.text.as_bytes();
                let mut i = start;
                let mut in_str = false;
                while i < bytes.len() {
                    let c = bytes[i];
                    if in_str {
                        if c == b'\\' {
                            i += 1;
                        } else if c == b'"' {
                            in_str = false;
                        }
                    } else if c == b'"' {
                        in_str = true;
                    } else if c == b'(' {
                        depth += 1;
                    } else if c == b')' {
                        depth -= 1;
                        if depth == 0 {
                            end = Some(i);
                            break;
                        }
                    }
                    i += 1;
                }
                let end = match end {
                    Some(e) => e,
                    None => continue,
                };
                let inner = &f.text[start..end];
                if let Ok(item) = syn::parse_str::<syn::ItemFn>(inner) {
                    let arm_ok = match &arm {
                        Some(a) => {
                            let before = norm(&f.text[..start - "func!(".len()]);
                            before.ends_with(&format!("{}=>", a))
                        }
                        None => true,
                    };
                    if item.sig.ident == name && arm_ok {
                        let br = item.block.span().byte_range();
                        let body_abs = start + br.start;
                        hits.push(Found {
                            file: f.path.clone(),
                            origin: format!("{}:{} (func! {})", f.path, line_of(&f.text, start), name),
                            item_text: inner.to_string(),
                            item_line_start: line_of(&f.text, start),
                            item_line_end: line_of(&f.text, end),
                            body_text: inner[br.clone()].to_string(),
                            body_line_start: line_of(&f.text, body_abs),
                            sig_norm: None,
                            sig_text: item.sig.to_token_stream().to_string(),
                            sig_src: String::new(),
                            lifted: Some(format!("func!({})", name)),
                        });
                    }
                }
            }
        }
        if hits.len() != 1 {
            bail!("func!(fn {}): {} matches", name, hits.len());
        }
        Ok(hits.pop().unwrap())
    }

    pub fn extract_type(&self, spec: &str) -> Result<(String, Value), Undecided> {
        // spec: Name [in file.rs]
        let mut name = spec.trim().to_string();
        let mut in_file: Option<String> = None;
        if let Some(p) = name.rfind(" in ") {
            in_file = Some(name[p + 4..].trim().to_string());
            name = name[..p].trim().to_string();
        }
        let name = name.trim_start_matches("struct ").trim_start_matches("enum ").trim().to_string();
        let mut hits: Vec<(&SrcFile, std::ops::Range<usize>, Vec<std::ops::Range<usize>>)> = vec![];
        for f in &self.files {
            if let Some(p) = &in_file {
                if &f.path != p {
                    continue;
                }
            }
            find_types(&f.ast.items, &name, f, &mut hits);
        }
        if hits.len() != 1 {
            bail!("type {}: {} definitions found", spec, hits.len());
        }
        let (f, range, attrs) = hits.pop().unwrap();
        let orig = &f.text[range.clone()];
        // delete attribute ranges (N1), keeping newlines so that lines do not move
        let mut text = String::new();
        let mut pos = range.start;
        let mut attrs = attrs;
        attrs.sort_by_key(|r| r.start);
        let mut dropped = vec![];
        for a in attrs {
            if a.start < pos {
                continue;
            }
            text.push_str(&f.text[pos..a.start]);
            if a.start == a.end {
                text.push_str("pub ");
                dropped.push("private item or field made pub".to_string());
                pos = a.end;
                continue;
            }
            let at = &f.text[a.clone()];
            dropped.push(crate::one_line_pub(at));
            for _ in 0..at.bytes().filter(|b| *b == b'\n').count() {
                text.push('\n');
            }
            pos = a.end;
        }
        text.push_str(&f.text[pos..range.end]);
        // N1: restricted visibility on fields has no run-time meaning; Verus treats such types as opaque
        let nvis = text.matches("pub(crate) ").count() + text.matches("pub(super) ").count();
        if nvis > 0 {
            text = text.replace("pub(crate) ", "pub ").replace("pub(super) ", "pub ");
            dropped.push(format!("{} restricted field visibilities widened to pub", nvis));
        }
        // N19: for an enum without fields, the declaration order of its variants as a spec function (generated from the
        // source, one line): what a derived PartialOrd / Ord compares
        if let Ok(en) = syn::parse_str::<syn::ItemEnum>(orig) {
            if !en.variants.is_empty() && en.variants.iter().all(|v| matches!(v.fields, syn::Fields::Unit)) && en.generics.params.is_empty() {
                let arms: Vec<String> = en.variants.iter().enumerate().map(|(i, v)| format!("{}::{} => {}int", name, v.ident, i)).collect();
                text.push_str(&format!("\npub open spec fn vx_variant_index_{}(x: {}) -> int {{ match x {{ {} }} }}", name, name, arms.join(", ")));
            }
        }
        let info = json!({"name": name, "file": f.path, "src_line_start": line_of(&f.text, range.start),
            "src_line_end": line_of(&f.text, range.end), "item_text": orig, "dropped_attrs": dropped});
        Ok((text, info))
    }
}

fn find_types<'a>(items: &'a [syn::Item], name: &str, f: &'a SrcFile, out: &mut Vec<(&'a SrcFile, std::ops::Range<usize>, Vec<std::ops::Range<usize>>)>) {
    for it in items {
        match it {
            syn::Item::Struct(s) if s.ident == name => {
                let mut attrs: Vec<_> = s.attrs.iter().map(|a| a.span().byte_range()).collect();
                for fld in s.fields.iter() {
                    attrs.extend(fld.attrs.iter().map(|a| a.span().byte_range()));
                    // N1: a private field becomes pub (zero-width marker range start..start)
                    if matches!(fld.vis, syn::Visibility::Inherited) {
                        let at = match &fld.ident {
                            Some(id) => id.span().byte_range().start,
                            None => fld.ty.span().byte_range().start,
                        };
                        attrs.push(at..at);
                    }
                }
                if matches!(s.vis, syn::Visibility::Inherited) {
                    let at = s.struct_token.span().byte_range().start;
                    attrs.push(at..at);
                }
                out.push((f, s.span().byte_range(), attrs));
            }
            syn::Item::Enum(e) if e.ident == name => {
                let mut attrs: Vec<_> = e.attrs.iter().map(|a| a.span().byte_range()).collect();
                if matches!(e.vis, syn::Visibility::Inherited) {
                    let at = e.enum_token.span().byte_range().start;
                    attrs.push(at..at);
                }
                for v in e.variants.iter() {
                    attrs.extend(v.attrs.iter().map(|a| a.span().byte_range()));
                    for fld in v.fields.iter() {
                        attrs.extend(fld.attrs.iter().map(|a| a.span().byte_range()));
                    }
                }
                out.push((f, e.span().byte_range(), attrs));
            }
            // a module-level constant is taken verbatim (doc comments dropped, made pub), like a type
            syn::Item::Const(c) if c.ident == name => {
                let mut attrs: Vec<_> = c.attrs.iter().map(|a| a.span().byte_range()).collect();
                if matches!(c.vis, syn::Visibility::Inherited) {
                    let at = c.const_token.span().byte_range().start;
                    attrs.push(at..at);
                }
                out.push((f, c.span().byte_range(), attrs));
            }
            syn::Item::Mod(m) => {
                let is_test = m.attrs.iter().any(|a| a.to_token_stream().to_string().replace(' ', "").contains("cfg(test)"));
                if is_test {
                    continue;
                }
                if let Some((_, items)) = &m.content {
                    find_types(items, name, f, out);
                }
            }
            _ => {}
        }
    }
}

fn find_macro_defs<'a>(items: &'a [syn::Item], name: &str, f: &'a SrcFile, out: &mut Vec<(&'a SrcFile, &'a syn::ItemMacro)>) {
    for it in items {
        match it {
            syn::Item::Macro(m) => {
                if m.mac.path.is_ident("macro_rules") && m.ident.as_ref().map(|i| i == name).unwrap_or(false) {
                    out.push((f, m));
                }
            }
            syn::Item::Mod(m) => {
                if let Some((_, items)) = &m.content {
                    find_macro_defs(items, name, f, out);
                }
            }
            _ => {}
        }
    }
}

/// returns (param names with '$', byte range of the transcriber body contents)
pub(crate) fn parse_macro_rules(m: &syn::ItemMacro, _text: &str) -> Result<(Vec<String>, std::ops::Range<usize>), Undecided> {
    use proc_macro2::TokenTree as TT;
    let toks: Vec<TT> = m.mac.tokens.clone().into_iter().collect();
    // expect: (matcher) => {transcriber} [;]
    let mut it = toks.into_iter();
    let matcher = match it.next() {
        Some(TT::Group(g)) => g,
        _ => bail!("macro_rules: unexpected shape"),
    };
    match (it.next(), it.next()) {
        (Some(TT::Punct(a)), Some(TT::Punct(b))) if a.as_char() == '=' && b.as_char() == '>' => {}
        _ => bail!("macro_rules: expected =>"),
    }
    let body = match it.next() {
        Some(TT::Group(g)) => g,
        _ => bail!("macro_rules: expected transcriber"),
    };
    let rest: Vec<TT> = it.collect();
    if rest.iter().any(|t| matches!(t, TT::Group(_))) {
        bail!("macro_rules with more than one arm is outside the catalogue (N10)");
    }
    // params: $name : frag , ...
    let mut params = vec![];
    let mt: Vec<TT> = matcher.stream().into_iter().collect();
    let mut i = 0;
    while i < mt.len() {
        match &mt[i] {
            TT::Punct(p) if p.as_char() == '$' => {
                let name = match mt.get(i + 1) {
                    Some(TT::Ident(id)) => id.to_string(),
                    _ => bail!("macro_rules: repetition or unexpected matcher (N10)"),
                };
                match (mt.get(i + 2), mt.get(i + 3)) {
                    (Some(TT::Punct(c)), Some(TT::Ident(frag))) if c.as_char() == ':' => {
                        let fr = frag.to_string();
                        if !["ident", "expr", "ty", "path", "tt", "literal"].contains(&fr.as_str()) {
                            bail!("macro_rules: fragment {} outside the catalogue (N10)", fr);
                        }
                    }
                    _ => bail!("macro_rules: bad matcher"),
                }
                params.push(format!("${}", name));
                i += 4;
            }
            TT::Punct(p) if p.as_char() == ',' => i += 1,
            _ => bail!("macro_rules: matcher with literal tokens is outside the catalogue (N10)"),
        }
    }
    let r = body.span().byte_range();
    Ok((params, r.start + 1..r.end - 1))
}

/// byte offsets of s that lie inside a string or character literal (so that brackets and commas there are not syntax)
pub(crate) fn literal_mask(s: &str) -> Vec<bool> {
    let b: Vec<char> = s.chars().collect();
    let mut mask_c = vec![false; b.len()];
    let mut i = 0;
    while i < b.len() {
        if b[i] == '"' {
            let st = i;
            i += 1;
            while i < b.len() && b[i] != '"' {
                if b[i] == '\\' {
                    i += 1;
                }
                i += 1;
            }
            for k in st..=i.min(b.len() - 1) {
                mask_c[k] = true;
            }
            i += 1;
        } else if b[i] == '\'' {
            // a character literal: 'x' or an escape; anything else is a lifetime
            if i + 2 < b.len() && b[i + 1] != '\\' && b[i + 2] == '\'' {
                mask_c[i] = true;
                mask_c[i + 1] = true;
                mask_c[i + 2] = true;
                i += 3;
            } else if i + 1 < b.len() && b[i + 1] == '\\' {
                let st = i;
                i += 2;
                while i < b.len() && b[i] != '\'' {
                    i += 1;
                }
                for k in st..=i.min(b.len() - 1) {
                    mask_c[k] = true;
                }
                i += 1;
            } else {
                i += 1;
            }
        } else {
            i += 1;
        }
    }
    // per byte
    let mut mask = Vec::with_capacity(s.len());
    for (k, c) in b.iter().enumerate() {
        for _ in 0..c.len_utf8() {
            mask.push(mask_c[k]);
        }
    }
    mask
}

pub(crate) fn split_top_commas(s: &str) -> Vec<String> {
    let mask = literal_mask(s);
    let mut out = vec![];
    let mut depth = 0i32;
    let mut cur = String::new();
    for (i, c) in s.char_indices() {
        if mask[i] {
            cur.push(c);
            continue;
        }
        match c {
            '(' | '[' | '{' | '<' => {
                depth += 1;
                cur.push(c)
            }
            ')' | ']' | '}' | '>' => {
                depth -= 1;
                cur.push(c)
            }
            ',' if depth == 0 => {
                out.push(cur.trim().to_string());
                cur.clear();
            }
            _ => cur.push(c),
        }
    }
    if !cur.trim().is_empty() {
        out.push(cur.trim().to_string());
    }
    out
}

pub(crate) fn replace_metavar(body: &str, var: &str, val: &str) -> String {
    // replace `$name` not followed by an identifier character
    let mut out = String::new();
    let mut i = 0;
    let b = body.as_bytes();
    while i < body.len() {
        if body[i..].starts_with(var) {
            let nxt = b.get(i + var.len()).copied().unwrap_or(b' ');
            if !(nxt.is_ascii_alphanumeric() || nxt == b'_') {
                out.push_str(val);
                i += var.len();
                continue;
            }
        }
        let ch = body[i..].chars().next().unwrap();
        out.push(ch);
        i += ch.len_utf8();
    }
    out
}

fn locate_in(files: &[SrcFile], loc: &str, in_file: Option<&str>) -> Result<Found, Undecided> {
    // forms: fn NAME | impl TYPE fn NAME | impl TRAIT for TYPE fn NAME
    let (owner_pat, fname): (Option<(Option<String>, String)>, String) = if let Some(rest) = loc.strip_prefix("impl ") {
        let p = rest.rfind(" fn ").ok_or_else(|| Undecided(format!("locator '{}': missing ' fn '", loc)))?;
        let head = rest[..p].trim();
        let fname = rest[p + 4..].trim().to_string();
        if let Some(q) = head.find(" for ") {
            (Some((Some(norm(&head[..q])), norm(&head[q + 5..]))), fname)
        } else {
            (Some((None, norm(head))), fname)
        }
    } else if let Some(rest) = loc.strip_prefix("fn ") {
        (None, rest.trim().to_string())
    } else {
        bail!("locator '{}' not understood", loc);
    };
    let mut hits = vec![];
    for f in files {
        if let Some(p) = in_file {
            if f.path != p {
                continue;
            }
        }
        let mut fns = vec![];
        collect_fns(&f.ast.items, &mut fns);
        for fr in fns {
            if fr.sig.ident != fname.as_str() {
                continue;
            }
            let ok = match (&owner_pat, &fr.owner) {
                (None, Owner::Free) => true,
                (Some((None, ty)), Owner::Inherent(t)) => ty == t,
                (Some((Some(tr), ty)), Owner::Trait(t2, ty2)) => tr == t2 && ty == ty2,
                _ => false,
            };
            if ok {
                hits.push((f, fr));
            }
        }
    }
    if hits.is_empty() {
        bail!("lost anchor: '{}' not found", loc);
    }
    if hits.len() > 1 {
        let places: Vec<String> = hits.iter().map(|(f, fr)| format!("{}:{}", f.path, f.line_base + line_of(&f.text, fr.item_range.start))).collect();
        bail!("ambiguous anchor: '{}' found {} times ({})", loc, hits.len(), places.join(", "));
    }
    let (f, fr) = hits.pop().unwrap();
    let br = fr.block.span().byte_range();
    let mut sig = fr.sig.clone();
    // attributes on parameters are not part of the comparison
    for inp in sig.inputs.iter_mut() {
        match inp {
            syn::FnArg::Typed(t) => t.attrs.clear(),
            syn::FnArg::Receiver(r) => r.attrs.clear(),
        }
    }
    // N14: parameters named like Verus built-in types are renamed in the comparison too
    for inp in sig.inputs.iter_mut() {
        if let syn::FnArg::Typed(t) = inp {
            if let syn::Pat::Ident(pi) = &mut *t.pat {
                let n = pi.ident.to_string();
                if crate::rewrite::RESERVED.contains(&n.as_str()) {
                    pi.ident = syn::Ident::new(&format!("{}__v", n), pi.ident.span());
                }
            }
        }
    }
    let sig_text = sig.to_token_stream().to_string();
    Ok(Found {
        file: f.path.clone(),
        origin: format!("{}:{}", f.path, f.line_base + line_of(&f.text, fr.item_range.start)),
        item_text: f.text[fr.item_range.clone()].to_string(),
        item_line_start: f.line_base + line_of(&f.text, fr.item_range.start),
        item_line_end: f.line_base + line_of(&f.text, fr.item_range.end),
        body_text: f.text[br.clone()].to_string(),
        body_line_start: f.line_base + line_of(&f.text, br.start),
        sig_norm: Some(norm(&sig_text)),
        sig_text,
        sig_src: f.text[fr.sig.span().byte_range()].to_string(),
        lifted: None,
    })
}

fn lift_arm(f: Found, pat: &str, nth: usize, after_pat: Option<&str>) -> Result<Found, Undecided> {
    use syn::visit::Visit;
    let block: syn::Block = syn::parse_str(&f.body_text).map_err(|e| Undecided(format!("body of {} does not parse: {}", f.origin, e)))?;
    struct V<'a> {
        want: String,
        after: Option<String>,
        hits: Vec<(std::ops::Range<usize>, bool)>,
        after_missing: bool,
        _p: std::marker::PhantomData<&'a ()>,
    }
    fn arm_pat(a: &syn::Arm) -> String {
        let mut p = norm(&a.pat.to_token_stream().to_string());
        if let Some((_, g)) = &a.guard {
            p.push_str("if");
            p.push_str(&norm(&g.to_token_stream().to_string()));
        }
        p
    }
    impl<'a, 'ast> Visit<'ast> for V<'a> {
        fn visit_expr_match(&mut self, m: &'ast syn::ExprMatch) {
            let mut seen: Vec<String> = vec![];
            for a in &m.arms {
                let p = arm_pat(a);
                if p == self.want {
                    let is_block = matches!(&*a.body, syn::Expr::Block(b) if b.label.is_none() && b.attrs.is_empty());
                    if let Some(ap) = &self.after {
                        // trailing commas inside the pattern are not significant
                        let strip = |x: &str| x.replace(",}", "}").replace(",)", ")");
                        if !seen.iter().any(|s| strip(s) == strip(ap)) {
                            // not the match that is meant (it has no earlier arm with that pattern)
                            self.after_missing = true;
                            seen.push(p);
                            continue;
                        }
                    }
                    self.hits.push((a.body.span().byte_range(), is_block));
                }
                seen.push(p);
            }
            syn::visit::visit_expr_match(self, m);
        }
    }
    let mut v = V { want: norm(pat), after: after_pat.map(norm), hits: vec![], after_missing: false, _p: std::marker::PhantomData };
    v.visit_block(&block);
    if v.hits.len() <= nth {
        bail!("lost anchor: match arm `{}` (nth {}) not found in {} ({} candidates)", pat, nth, f.origin, v.hits.len());
    }
    if nth == 0 && v.hits.len() > 1 {
        bail!("ambiguous anchor: match arm `{}` found {} times in {}; use 'nth K'", pat, v.hits.len(), f.origin);
    }
    let _ = v.after_missing;
    let (r, is_block) = v.hits[nth].clone();
    let body_line = f.body_line_start + line_of(&f.body_text, r.start) - 1;
    let txt = &f.body_text[r.clone()];
    let body_text = if is_block { txt.to_string() } else { format!("{{ {} }}", txt) };
    Ok(Found {
        origin: format!("{} arm `{}` at line {}", f.origin, pat, body_line),
        item_text: txt.to_string(),
        item_line_start: body_line,
        item_line_end: f.body_line_start + line_of(&f.body_text, r.end) - 1,
        body_text,
        body_line_start: body_line,
        sig_norm: None,
        lifted: Some(format!("arm `{}`", pat)),
        ..f
    })
}

fn lift_nested_fn(f: Found, name: &str) -> Result<Found, Undecided> {
    use syn::visit::Visit;
    let block: syn::Block = syn::parse_str(&f.body_text).map_err(|e| Undecided(format!("body of {} does not parse: {}", f.origin, e)))?;
    struct V {
        name: String,
        hits: Vec<(std::ops::Range<usize>, std::ops::Range<usize>, std::ops::Range<usize>)>,
    }
    impl<'ast> Visit<'ast> for V {
        fn visit_item_fn(&mut self, i: &'ast syn::ItemFn) {
            if i.sig.ident == self.name {
                self.hits.push((i.span().byte_range(), i.sig.span().byte_range(), i.block.span().byte_range()));
            }
            syn::visit::visit_item_fn(self, i);
        }
    }
    let mut v = V { name: name.to_string(), hits: vec![] };
    v.visit_block(&block);
    if v.hits.len() != 1 {
        bail!("lost anchor: nested fn `{}` found {} times in {}", name, v.hits.len(), f.origin);
    }
    let (item, sig, body) = v.hits.pop().unwrap();
    let line = f.body_line_start + line_of(&f.body_text, item.start) - 1;
    Ok(Found {
        origin: format!("{} nested fn `{}` at line {}", f.origin, name, line),
        item_text: f.body_text[item.clone()].to_string(),
        item_line_start: line,
        item_line_end: f.body_line_start + line_of(&f.body_text, item.end) - 1,
        body_text: f.body_text[body.clone()].to_string(),
        body_line_start: f.body_line_start + line_of(&f.body_text, body.start) - 1,
        sig_norm: None,
        sig_text: f.body_text[sig.clone()].to_string(),
        sig_src: f.body_text[sig].to_string(),
        lifted: None,
        ..f
    })
}

fn lift_closure(f: Found, pars: &str) -> Result<Found, Undecided> {
    use syn::visit::Visit;
    let block: syn::Block = syn::parse_str(&f.body_text).map_err(|e| Undecided(format!("body of {} does not parse: {}", f.origin, e)))?;
    struct V {
        want: String,
        hits: Vec<(std::ops::Range<usize>, bool)>,
    }
    impl<'ast> Visit<'ast> for V {
        fn visit_expr_closure(&mut self, c: &'ast syn::ExprClosure) {
            let p = norm(&c.inputs.to_token_stream().to_string());
            if p == self.want {
                let is_block = matches!(&*c.body, syn::Expr::Block(b) if b.label.is_none() && b.attrs.is_empty());
                self.hits.push((c.body.span().byte_range(), is_block));
            }
            syn::visit::visit_expr_closure(self, c);
        }
    }
    let mut v = V { want: norm(pars), hits: vec![] };
    v.visit_block(&block);
    if v.hits.len() != 1 {
        bail!("lost anchor: closure `|{}|` found {} times in {}", pars, v.hits.len(), f.origin);
    }
    let (r, is_block) = v.hits.pop().unwrap();
    let body_line = f.body_line_start + line_of(&f.body_text, r.start) - 1;
    let txt = &f.body_text[r.clone()];
    let body_text = if is_block { txt.to_string() } else { format!("{{ {} }}", txt) };
    Ok(Found {
        origin: format!("{} closure `|{}|` at line {}", f.origin, pars, body_line),
        item_text: txt.to_string(),
        item_line_start: body_line,
        item_line_end: f.body_line_start + line_of(&f.body_text, r.end) - 1,
        body_text,
        body_line_start: body_line,
        sig_norm: None,
        lifted: Some(format!("closure `|{}|`", pars)),
        ..f
    })
}

fn lift_stmts(f: Found, first: &str, last: &str) -> Result<Found, Undecided> {
    use syn::visit::Visit;
    let block: syn::Block = syn::parse_str(&f.body_text).map_err(|e| Undecided(format!("body of {} does not parse: {}", f.origin, e)))?;
    struct V {
        first: String,
        last: String,
        hits: Vec<std::ops::Range<usize>>,
    }
    impl<'ast> Visit<'ast> for V {
        fn visit_block(&mut self, b: &'ast syn::Block) {
            let texts: Vec<String> = b.stmts.iter().map(|s| norm(&s.to_token_stream().to_string())).collect();
            for i in 0..texts.len() {
                if texts[i].starts_with(&self.first) {
                    for j in i..texts.len() {
                        if texts[j].starts_with(&self.last) {
                            let s = b.stmts[i].span().byte_range().start;
                            let e = b.stmts[j].span().byte_range().end;
                            self.hits.push(s..e);
                            break;
                        }
                    }
                }
            }
            syn::visit::visit_block(self, b);
        }
    }
    let mut v = V { first: norm(first), last: norm(last), hits: vec![] };
    v.visit_block(&block);
    if v.hits.len() != 1 {
        bail!("lost anchor: statement range `{}` .. `{}` found {} times in {}", first, last, v.hits.len(), f.origin);
    }
    let r = v.hits.pop().unwrap();
    let body_line = f.body_line_start + line_of(&f.body_text, r.start) - 1;
    let txt = &f.body_text[r.clone()];
    Ok(Found {
        origin: format!("{} statements `{}`..`{}` at line {}", f.origin, first, last, body_line),
        item_text: txt.to_string(),
        item_line_start: body_line,
        item_line_end: f.body_line_start + line_of(&f.body_text, r.end) - 1,
        body_text: format!("{{ {} }}", txt),
        body_line_start: body_line,
        sig_norm: None,
        lifted: Some(format!("stmts `{}`..`{}`", first, last)),
        ..f
    })
}

/// Compare the template's signature with the real one (up to the named return value).
pub fn check_sig(s: &SlotSpec, f: &Found) -> Result<(), Undecided> {
    let real = match &f.sig_norm {
        Some(r) => r.clone(),
        None => return Ok(()),
    };
    let t = template_sig(&s.sig);
    let t = norm(&t);
    let strip_vis = |x: &str| -> String {
        let mut x = x.to_string();
        for p in ["pub(crate)", "pub(super)", "pub"] {
            if let Some(r) = x.strip_prefix(p) {
                x = r.to_string();
                break;
            }
        }
        x
    };
    let a = strip_vis(&t);
    let b = strip_vis(&real);
    if a != b {
        bail!("signature mismatch for slot '{}' at {}: template `{}` vs source `{}`", s.name, f.origin, a, b);
    }
    Ok(())
}

fn template_sig(sig: &str) -> String {
    // cut at the first top-level contract keyword
    let toks: Vec<(usize, String)> = tokenize_words(sig);
    let mut cut = sig.len();
    let mut depth = 0i32;
    let b = sig.as_bytes();
    let mut wi = 0;
    for i in 0..b.len() {
        match b[i] {
            b'(' | b'[' | b'{' => depth += 1,
            b')' | b']' | b'}' => depth -= 1,
            _ => {}
        }
        while wi < toks.len() && toks[wi].0 < i {
            wi += 1;
        }
        if wi < toks.len() && toks[wi].0 == i && depth == 0 {
            let w = toks[wi].1.as_str();
            if ["requires", "ensures", "decreases", "recommends", "no_unwind", "opens_invariants", "returns"].contains(&w) {
                cut = i;
                break;
            }
        }
    }
    let head = sig[..cut].trim().to_string();
    // `-> (name: T)` => `-> T`
    if let Some(p) = head.rfind("->") {
        let ret = head[p + 2..].trim();
        if ret.starts_with('(') && ret.ends_with(')') {
            let inner = &ret[1..ret.len() - 1];
            if let Some(c) = inner.find(':') {
                let name = inner[..c].trim();
                if !name.is_empty() && name.chars().all(|ch| ch.is_alphanumeric() || ch == '_') && !inner[c..].starts_with("::") {
                    return format!("{} -> {}", &head[..p], inner[c + 1..].trim());
                }
            }
        }
    }
    head
}

fn tokenize_words(s: &str) -> Vec<(usize, String)> {
    let mut out = vec![];
    let mut cur = String::new();
    let mut start = 0;
    for (i, c) in s.char_indices() {
        if c.is_alphanumeric() || c == '_' {
            if cur.is_empty() {
                start = i;
            }
            cur.push(c);
        } else if !cur.is_empty() {
            out.push((start, std::mem::take(&mut cur)));
        }
    }
    if !cur.is_empty() {
        out.push((start, cur));
    }
    out
}
