// The rewrite catalogue (DESIGN.md 2.2) as text edits at syn spans.

use crate::index::{line_of, norm, Found, Index};
use crate::{bail, SlotSpec, Undecided};
use quote::ToTokens;
use serde_json::{json, Value};
use syn::spanned::Spanned;
use syn::visit::Visit;

struct Edit {
    start: usize,
    end: usize,
    text: String,
    seq: usize,
    /// N16: the text holds the marker \u{1}; it is replaced by the rewritten text of this source range
    copy: Option<(usize, usize)>,
}

struct Cx<'a> {
    src: &'a str,
    slot: &'a SlotSpec,
    retarget: &'a [(String, String)],
    edits: Vec<Edit>,
    log: Vec<Value>,
    seq: usize,
    err: Option<String>,
    loop_ord: usize,
    closure_ord: usize,
    base_line: usize,
    loops_seen: Vec<usize>,
    closures_seen: Vec<usize>,
    let_counts: std::collections::HashMap<String, usize>,
    let_hints_used: Vec<String>,
    arm_ord: usize,
    kind_ord: std::collections::HashMap<&'static str, usize>,
    kloops_seen: Vec<(String, usize)>,
    loop_stack: Vec<(String, usize)>, // (label kind#k, arm counter inside that loop)
    if_ord: usize,
    if_stack: Vec<usize>, // if counter inside the innermost loop
    ext: Ext,
}

#[derive(Default)]
struct Ext {
    stmt_stack: Vec<usize>,                                  // start offsets of the enclosing statements
    mcall_counts: std::collections::HashMap<String, usize>, // ordinal of method calls by name (source order)
    letlifts_seen: Vec<usize>,
    return_ord: usize,
}

fn pat_idents(p: &syn::Pat, out: &mut Vec<String>) {
    match p {
        syn::Pat::Ident(i) => {
            out.push(i.ident.to_string());
            if let Some((_, sp)) = &i.subpat {
                pat_idents(sp, out);
            }
        }
        syn::Pat::Tuple(t) => t.elems.iter().for_each(|e| pat_idents(e, out)),
        syn::Pat::TupleStruct(t) => t.elems.iter().for_each(|e| pat_idents(e, out)),
        syn::Pat::Struct(s) => s.fields.iter().for_each(|f| pat_idents(&f.pat, out)),
        syn::Pat::Reference(r) => pat_idents(&r.pat, out),
        syn::Pat::Paren(pp) => pat_idents(&pp.pat, out),
        syn::Pat::Type(t) => pat_idents(&t.pat, out),
        _ => {}
    }
}

fn strip_parens(e: &syn::Expr) -> &syn::Expr {
    match e {
        syn::Expr::Paren(p) => strip_parens(&p.expr),
        syn::Expr::Group(g) => strip_parens(&g.expr),
        _ => e,
    }
}

fn expr_ident(e: &syn::Expr) -> Option<String> {
    match strip_parens(e) {
        syn::Expr::Path(p) if p.qself.is_none() && p.path.segments.len() == 1 => Some(p.path.segments[0].ident.to_string()),
        _ => None,
    }
}

fn contains_continue(b: &syn::Block, label: Option<String>) -> bool {
    // a `continue` that targets this loop (unlabeled at depth 0, or carrying this loop's label at any depth), or a labeled
    // `continue` of an enclosing loop written directly in this body
    struct C(bool, usize, Option<String>);
    impl<'ast> Visit<'ast> for C {
        fn visit_expr_continue(&mut self, c: &'ast syn::ExprContinue) {
            match &c.label {
                None => {
                    if self.1 == 0 {
                        self.0 = true;
                    }
                }
                Some(l) => {
                    if self.1 == 0 || Some(l.ident.to_string()) == self.2 {
                        self.0 = true;
                    }
                }
            }
        }
        fn visit_expr_closure(&mut self, _: &'ast syn::ExprClosure) {}
        fn visit_expr_for_loop(&mut self, f: &'ast syn::ExprForLoop) {
            self.1 += 1;
            self.visit_block(&f.body);
            self.1 -= 1;
        }
        fn visit_expr_while(&mut self, w: &'ast syn::ExprWhile) {
            self.1 += 1;
            self.visit_block(&w.body);
            self.1 -= 1;
        }
        fn visit_expr_loop(&mut self, l: &'ast syn::ExprLoop) {
            self.1 += 1;
            self.visit_block(&l.body);
            self.1 -= 1;
        }
    }
    let mut c = C(false, 0, label);
    c.visit_block(b);
    c.0
}

impl<'a> Cx<'a> {
    fn fail(&mut self, msg: String) {
        if self.err.is_none() {
            self.err = Some(msg);
        }
    }
    fn line(&self, byte: usize) -> usize {
        self.base_line + line_of(self.src, byte) - 1
    }
    fn insert(&mut self, at: usize, text: impl Into<String>) {
        self.seq += 1;
        self.edits.push(Edit { start: at, end: at, text: text.into(), seq: self.seq, copy: None });
    }
    fn replace(&mut self, r: std::ops::Range<usize>, text: impl Into<String>) {
        self.seq += 1;
        self.edits.push(Edit { start: r.start, end: r.end, text: text.into(), seq: self.seq, copy: None });
    }
    fn note(&mut self, rule: &str, at: usize, before: &str, after: &str) {
        let l = self.line(at);
        self.log.push(json!({"rule": rule, "line": l, "before": crate::one_line_pub(before), "after": crate::one_line_pub(after)}));
    }

    // ---- N3 -------------------------------------------------------------
    /// Rewrites `&P` patterns; returns the by-value bindings that need `let x = *x__r;`
    fn pat(&mut self, p: &syn::Pat, under_ref: bool, derefs: &mut Vec<String>) {
        match p {
            syn::Pat::Reference(r) => {
                let s = r.and_token.span().byte_range().start;
                let inner_start = r.pat.span().byte_range().start;
                self.replace(s..inner_start, "");
                self.note("N3", s, &self.src[s..r.pat.span().byte_range().end].to_string(), "reference pattern removed (default binding mode)");
                self.pat(&r.pat, true, derefs);
            }
            syn::Pat::Ident(i) => {
                let nm = i.ident.to_string();
                if RESERVED.contains(&nm.as_str()) && !(under_ref && i.by_ref.is_none() && i.subpat.is_none()) {
                    // N14 in patterns of arms / lets / closures
                    let r = i.ident.span().byte_range();
                    self.replace(r.clone(), format!("{}__v", nm));
                    self.note("N14", r.start, &nm, &format!("{}__v", nm));
                }
                if under_ref {
                    if let Some(rf) = &i.by_ref {
                        let s = rf.span().byte_range().start;
                        let e = i.ident.span().byte_range().start;
                        self.replace(s..e, "");
                    } else if i.subpat.is_none() {
                        // by-value binding of a Copy field under `&`: rename and deref
                        let name = i.ident.to_string();
                        let first = name.chars().next().unwrap_or('a');
                        if first.is_lowercase() || first == '_' {
                            if name != "_" {
                                let r = i.ident.span().byte_range();
                                self.replace(r.clone(), format!("{}__r", name));
                                if i.mutability.is_some() {
                                    self.fail(format!("line {}: `mut` by-value binding under a reference pattern (N3)", self.line(r.start)));
                                }
                                derefs.push(name);
                            }
                        }
                    }
                }
                if let Some((_, sp)) = &i.subpat {
                    self.pat(sp, under_ref, derefs);
                }
            }
            syn::Pat::Tuple(t) => {
                for e in &t.elems {
                    self.pat(e, under_ref, derefs);
                }
            }
            syn::Pat::TupleStruct(t) => {
                for e in &t.elems {
                    self.pat(e, under_ref, derefs);
                }
            }
            syn::Pat::Struct(s) => {
                for f in &s.fields {
                    self.pat(&f.pat, under_ref, derefs);
                }
            }
            syn::Pat::Or(o) => {
                for c in &o.cases {
                    self.pat(c, under_ref, derefs);
                }
            }
            syn::Pat::Paren(pp) => self.pat(&pp.pat, under_ref, derefs),
            syn::Pat::Slice(s) => {
                for e in &s.elems {
                    self.pat(e, under_ref, derefs);
                }
            }
            syn::Pat::Type(t) => self.pat(&t.pat, under_ref, derefs),
            _ => {}
        }
    }

    fn deref_lets(derefs: &[String]) -> String {
        let mut s = String::new();
        for d in derefs {
            s.push_str(&format!("let {} = *{}__r; ", d, d));
        }
        s
    }

    /// put `lets` at the head of an expression used as a body (arm body, closure body)
    fn wrap_body(&mut self, body: &syn::Expr, lets: &str) {
        let r = body.span().byte_range();
        match body {
            syn::Expr::Block(b) if b.label.is_none() => {
                let open = b.block.brace_token.span.open().byte_range().end;
                self.insert(open, format!(" {}", lets));
            }
            _ => {
                self.insert(r.start, format!("{{ {}", lets));
                self.insert(r.end, " }");
            }
        }
    }

    fn loop_spec_k(&mut self, ord: usize, kind: &'static str) -> Option<(Option<String>, String)> {
        self.loops_seen.push(ord);
        let k = *self.kind_ord.get(kind).unwrap_or(&0);
        self.kind_ord.insert(kind, k + 1);
        self.kloops_seen.push((kind.to_string(), k));
        if let Some(l) = self.slot.kloops.iter().find(|l| l.0 == kind && l.1 == k) {
            return Some((l.2.clone(), l.3.clone()));
        }
        self.slot.loops.iter().find(|l| l.0 == ord).map(|l| (l.1.clone(), l.2.clone()))
    }

    /// `loop_before KIND#k`: the hint goes in front of the loop statement (set-up of ghost state for the invariant)
    fn hint_before_loop(&mut self, at: usize) {
        let (kind, k) = self.kloops_seen.last().cloned().unwrap_or(("".into(), 0));
        let key = format!("loop_before {}#{}", kind, k);
        let hs: Vec<(String, String)> = self.slot.hints.iter().filter(|h| h.0 == key).cloned().collect();
        for (w, t) in hs {
            self.let_hints_used.push(w);
            self.insert(at, format!("{} ", t));
        }
    }

    fn hint_for_loop(&mut self, ord: usize, body: &syn::Block) {
        let (kind, k) = self.kloops_seen.last().cloned().unwrap_or(("".into(), 0));
        let start_key = format!("loop_start {}", ord);
        let end_key = format!("loop_end {}", ord);
        let kstart = format!("loop_start {}#{}", kind, k);
        let kend = format!("loop_end {}#{}", kind, k);
        let hs: Vec<(String, String)> = self.slot.hints.iter().filter(|h| h.0 == start_key || h.0 == end_key || h.0 == kstart || h.0 == kend).cloned().collect();
        for (w, t) in hs {
            self.let_hints_used.push(w.clone());
            if w == start_key || w == kstart {
                let open = body.brace_token.span.open().byte_range().end;
                self.insert(open, format!(" {} ", t));
            } else {
                let close = body.brace_token.span.close().byte_range().start;
                // a loop body ending in an expression without `;` (of type ()) gets one before the hint
                let sep = if matches!(body.stmts.last(), Some(syn::Stmt::Expr(_, None))) { ";" } else { "" };
                self.insert(close, format!("{} {} ", sep, t));
            }
        }
    }

    fn macro_args(&mut self, mac: &syn::Macro) -> Option<Vec<syn::Expr>> {
        // the argument tokens keep their spans, so nested rewrites stay possible
        let parser = syn::punctuated::Punctuated::<syn::Expr, syn::Token![,]>::parse_terminated;
        use syn::parse::Parser;
        parser.parse2(mac.tokens.clone()).ok().map(|p| p.into_iter().collect())
    }

    fn handle_macro(&mut self, mac: &syn::Macro, whole: std::ops::Range<usize>) {
        let name = mac.path.segments.last().map(|s| s.ident.to_string()).unwrap_or_default();
        let before = self.src[whole.clone()].to_string();
        match name.as_str() {
            "format" => {
                self.replace(whole.clone(), "vx_fmt()");
                self.note("N6", whole.start, &before, "vx_fmt()");
            }
            "println" | "eprintln" | "print" | "eprint" | "dbg" => {
                self.replace(whole.clone(), "vx_print()");
                self.note("N6", whole.start, &before, "vx_print()");
            }
            "panic" | "unreachable" | "todo" | "unimplemented" => {
                self.replace(whole.clone(), "vx_unreachable()");
                self.note("N6", whole.start, &before, "vx_unreachable()");
            }
            "write" | "writeln" => {
                if let Some(args) = self.macro_args(mac) {
                    if args.len() >= 2 {
                        let f = self.src[args[0].span().byte_range()].to_string();
                        let lit = self.src[args[1].span().byte_range()].to_string();
                        let rep = if name == "writeln" { format!("vx_writeln({}, {})", f, lit) } else { format!("vx_write({}, {})", f, lit) };
                        self.replace(whole.clone(), rep.clone());
                        self.note("N6", whole.start, &before, &rep);
                        return;
                    }
                }
                self.fail(format!("line {}: write! with unexpected arguments (N6)", self.line(whole.start)));
            }
            "assert" | "debug_assert" => {
                if let Some(args) = self.macro_args(mac) {
                    if !args.is_empty() {
                        let a0 = args[0].span().byte_range();
                        self.replace(whole.start..a0.start, "vx_assert(");
                        self.replace(a0.end..whole.end, ")");
                        self.note("N6", whole.start, &before, "vx_assert(<cond>)");
                        self.visit_expr(&args[0]);
                        return;
                    }
                }
                self.fail(format!("line {}: assert! with unexpected arguments (N6)", self.line(whole.start)));
            }
            "assert_eq" | "assert_ne" | "debug_assert_eq" => {
                if let Some(args) = self.macro_args(mac) {
                    if args.len() >= 2 {
                        let a0 = args[0].span().byte_range();
                        let a1 = args[1].span().byte_range();
                        let op = if name == "assert_ne" { " != " } else { " == " };
                        self.replace(whole.start..a0.start, "vx_assert((");
                        self.replace(a0.end..a1.start, format!("){}(", op));
                        self.replace(a1.end..whole.end, "))");
                        self.note("N6", whole.start, &before, "vx_assert((a) == (b))");
                        self.visit_expr(&args[0]);
                        self.visit_expr(&args[1]);
                        return;
                    }
                }
                self.fail(format!("line {}: assert_eq! with unexpected arguments (N6)", self.line(whole.start)));
            }
            "vec" | "matches" => {
                if let Some(args) = self.macro_args(mac) {
                    for a in &args {
                        self.visit_expr(a);
                    }
                }
            }
            other => {
                self.fail(format!("line {}: macro `{}!` is outside the catalogue", self.line(whole.start), other));
            }
        }
    }
}

fn binop_trait(op: &syn::BinOp) -> Option<(&'static str, &'static str)> {
    Some(match op {
        syn::BinOp::Add(_) => ("Add", "add"),
        syn::BinOp::Sub(_) => ("Sub", "sub"),
        syn::BinOp::Mul(_) => ("Mul", "mul"),
        syn::BinOp::Div(_) => ("Div", "div"),
        syn::BinOp::Rem(_) => ("Rem", "rem"),
        syn::BinOp::BitAnd(_) => ("BitAnd", "bitand"),
        syn::BinOp::BitOr(_) => ("BitOr", "bitor"),
        syn::BinOp::BitXor(_) => ("BitXor", "bitxor"),
        _ => return None,
    })
}

pub const RESERVED: [&str; 3] = ["int", "nat", "real"];

impl<'a, 'ast> Visit<'ast> for Cx<'a> {
    fn visit_expr_path(&mut self, p: &'ast syn::ExprPath) {
        // N14: a local named like a Verus built-in type is renamed (`int` => `int__v`)
        if p.qself.is_none() && p.path.segments.len() == 1 {
            let id = &p.path.segments[0].ident;
            let name = id.to_string();
            if RESERVED.contains(&name.as_str()) {
                let r = id.span().byte_range();
                self.replace(r.clone(), format!("{}__v", name));
                self.note("N14", r.start, &name, &format!("{}__v", name));
            } else if name == "self" {
                // N9: in a lifted arm / statement range / closure the receiver becomes the parameter named by `//@self NAME`
                if let Some(to) = &self.slot.self_name {
                    let r = id.span().byte_range();
                    self.replace(r.clone(), to.clone());
                }
            }
        }
        syn::visit::visit_expr_path(self, p);
    }

    fn visit_pat_ident(&mut self, i: &'ast syn::PatIdent) {
        let name = i.ident.to_string();
        if RESERVED.contains(&name.as_str()) {
            let r = i.ident.span().byte_range();
            self.replace(r.clone(), format!("{}__v", name));
            self.note("N14", r.start, &name, &format!("{}__v", name));
        }
        syn::visit::visit_pat_ident(self, i);
    }

    fn visit_attribute(&mut self, a: &'ast syn::Attribute) {
        // N1: attributes inside bodies
        let r = a.span().byte_range();
        let before = self.src[r.clone()].to_string();
        self.replace(r.clone(), "");
        self.note("N1", r.start, &before, "");
    }

    fn visit_expr_binary(&mut self, e: &'ast syn::ExprBinary) {
        if let Some((tr, f)) = binop_trait(&e.op) {
            let l = strip_parens(&e.left);
            let r = strip_parens(&e.right);
            let refy = |x: &syn::Expr| matches!(x, syn::Expr::Reference(_));
            let li = expr_ident(&e.left);
            let ri = expr_ident(&e.right);
            let listed = |i: &Option<String>, v: &Vec<String>| i.as_ref().map(|x| v.contains(x)).unwrap_or(false);
            let excluded = listed(&li, &self.slot.no_ufcs_idents) || listed(&ri, &self.slot.no_ufcs_idents);
            let want = !excluded
                && (refy(l) || refy(r) || self.slot.ufcs_all || listed(&li, &self.slot.ufcs_idents) || listed(&ri, &self.slot.ufcs_idents));
            if want {
                let whole = e.span().byte_range();
                let lr = e.left.span().byte_range();
                let rr = e.right.span().byte_range();
                let before = self.src[whole.clone()].to_string();
                self.insert(whole.start, format!("{}::{}(", tr, f));
                // keep the white space (and line breaks) between the operands
                let opr = e.op.span().byte_range();
                self.replace(lr.end..opr.end, ",");
                let _ = rr;
                self.insert(whole.end, ")");
                self.note("N2", whole.start, &before, &format!("{}::{}(<lhs>, <rhs>)", tr, f));
            }
        }
        syn::visit::visit_expr_binary(self, e);
    }

    fn visit_expr_unary(&mut self, e: &'ast syn::ExprUnary) {
        if let syn::UnOp::Neg(n) = &e.op {
            let inner = strip_parens(&e.expr);
            let id = expr_ident(&e.expr);
            let listed = id.as_ref().map(|x| self.slot.ufcs_idents.contains(x)).unwrap_or(false);
            let excluded = id.as_ref().map(|x| self.slot.no_ufcs_idents.contains(x)).unwrap_or(false);
            if !excluded && (matches!(inner, syn::Expr::Reference(_)) || listed || (self.slot.ufcs_all && !matches!(inner, syn::Expr::Lit(_)))) {
                let whole = e.span().byte_range();
                let before = self.src[whole.clone()].to_string();
                self.replace(n.span().byte_range(), "Neg::neg(");
                self.insert(whole.end, ")");
                self.note("N2", whole.start, &before, "Neg::neg(<operand>)");
            }
        }
        syn::visit::visit_expr_unary(self, e);
    }

    fn visit_arm(&mut self, a: &'ast syn::Arm) {
        // structural hint anchors: arm_start K / arm_end K (arms counted in source order)
        let ord = self.arm_ord;
        self.arm_ord += 1;
        let mut keys = vec![format!("arm_start {}", ord), format!("arm_end {}", ord)];
        if let Some((label, n)) = self.loop_stack.last_mut() {
            keys.push(format!("arm_start {}.{}", label, n));
            keys.push(format!("arm_end {}.{}", label, n));
            *n += 1;
        }
        let hs: Vec<(String, String)> = self.slot.hints.iter().filter(|h| keys.contains(&h.0)).cloned().collect();
        for (w, t) in hs {
            match &*a.body {
                syn::Expr::Block(b) if b.label.is_none() => {
                    if w.starts_with("arm_start") {
                        let open = b.block.brace_token.span.open().byte_range().end;
                        self.insert(open, format!(" {} ", t));
                    } else {
                        let close = b.block.brace_token.span.close().byte_range().start;
                        self.insert(close, format!(" {} ", t));
                    }
                    self.let_hints_used.push(w);
                }
                other => {
                    if w.starts_with("arm_start") {
                        let r = other.span().byte_range();
                        self.insert(r.start, format!("{{ {} ", t));
                        self.insert(r.end, " }");
                        self.let_hints_used.push(w);
                    } else {
                        self.fail(format!("hint `{}`: the arm body is not a block", w));
                    }
                }
            }
        }
        let mut derefs = vec![];
        self.pat(&a.pat, false, &mut derefs);
        if !derefs.is_empty() {
            if a.guard.is_some() {
                self.fail(format!("line {}: by-value binding under `&` pattern in an arm with a guard (N3)", self.line(a.span().byte_range().start)));
            }
            let lets = Cx::deref_lets(&derefs);
            self.wrap_body(&a.body, &lets);
        }
        for at in &a.attrs {
            self.visit_attribute(at);
        }
        if let Some((_, g)) = &a.guard {
            self.visit_expr(g);
        }
        self.visit_expr(&a.body);
    }

    fn visit_local(&mut self, l: &'ast syn::Local) {
        let mut derefs = vec![];
        self.pat(&l.pat, false, &mut derefs);
        if !derefs.is_empty() {
            let end = l.span().byte_range().end;
            let lets = Cx::deref_lets(&derefs);
            self.insert(end, format!(" {}", lets));
        }
        // structural hint anchor: after the K-th `let` binding NAME
        let mut ids = vec![];
        pat_idents(&l.pat, &mut ids);
        for id in ids {
            let k = *self.let_counts.get(&id).unwrap_or(&0);
            self.let_counts.insert(id.clone(), k + 1);
            let keys = if k == 0 { vec![format!("after_let {}", id), format!("after_let {}#0", id)] } else { vec![format!("after_let {}#{}", id, k)] };
            let hs: Vec<(String, String)> = self.slot.hints.iter().filter(|h| keys.contains(&h.0)).cloned().collect();
            for (w, t) in hs {
                let end = l.span().byte_range().end;
                self.insert(end, format!(" {} ", t));
                self.let_hints_used.push(w);
            }
        }
        for at in &l.attrs {
            self.visit_attribute(at);
        }
        if let Some(init) = &l.init {
            self.visit_expr(&init.expr);
            if let Some((_, d)) = &init.diverge {
                self.visit_expr(d);
            }
        }
    }

    fn visit_expr_let(&mut self, l: &'ast syn::ExprLet) {
        let mut derefs = vec![];
        self.pat(&l.pat, false, &mut derefs);
        if !derefs.is_empty() {
            self.fail(format!("line {}: by-value binding under `&` in `if let`/`while let` (N3) not supported", self.line(l.span().byte_range().start)));
        }
        self.visit_expr(&l.expr);
    }

    fn visit_expr_closure(&mut self, c: &'ast syn::ExprClosure) {
        let ord = self.closure_ord;
        self.closure_ord += 1;
        self.closures_seen.push(ord);
        let spec = self.slot.closures.iter().find(|x| x.0 == ord).map(|x| x.1.clone());
        let mut derefs = vec![];
        let mut derefs_prefix = String::new();
        if let Some(header) = spec {
            // replace `|params| [-> T]` by the template's header; the body must be a block
            let s = c.or1_token.span().byte_range().start;
            let e = c.body.span().byte_range().start;
            // by-value bindings under & in params still need their lets
            let mut scratch = Cx { src: self.src, slot: self.slot, retarget: self.retarget, edits: vec![], log: vec![], seq: 0, err: None, loop_ord: 0, closure_ord: 0, base_line: self.base_line, loops_seen: vec![], closures_seen: vec![], let_counts: Default::default(), let_hints_used: vec![], arm_ord: 0, kind_ord: Default::default(), kloops_seen: vec![], loop_stack: vec![], if_ord: 0, if_stack: vec![], ext: Default::default() };
            // names of the header's parameters, positionally
            let hdr_names: Vec<String> = {
                let h = header.trim();
                let inner = h.strip_prefix('|').and_then(|x| x.find('|').map(|p| x[..p].to_string())).unwrap_or_default();
                let mut out = vec![];
                let mut depth = 0i32;
                let mut cur = String::new();
                for ch in inner.chars() {
                    match ch {
                        '(' | '[' | '<' => { depth += 1; cur.push(ch) }
                        ')' | ']' | '>' => { depth -= 1; cur.push(ch) }
                        ',' if depth == 0 => { out.push(cur.clone()); cur.clear(); }
                        _ => cur.push(ch),
                    }
                }
                if !cur.trim().is_empty() { out.push(cur); }
                out.iter().map(|x| x.split(':').next().unwrap_or("").trim().to_string()).collect()
            };
            let mut param_lets = String::new();
            for (pi, p) in c.inputs.iter().enumerate() {
                // a typed param `x: T` or plain `x` with the header's name needs no let
                let inner_pat = match p { syn::Pat::Type(t) => &*t.pat, other => other };
                let simple = matches!(inner_pat, syn::Pat::Ident(i) if i.by_ref.is_none() && i.subpat.is_none() && hdr_names.get(pi).map(|n| i.ident == n.as_str()).unwrap_or(false));
                if simple {
                    continue;
                }
                let before = scratch.edits.len();
                scratch.pat(inner_pat, false, &mut derefs);
                let r = inner_pat.span().byte_range();
                let mut es: Vec<&Edit> = scratch.edits[before..].iter().collect();
                es.sort_by_key(|e| (e.start, e.seq));
                let mut txt = String::new();
                let mut pos = r.start;
                for e in es {
                    if e.start < pos || e.end > r.end { continue; }
                    txt.push_str(&self.src[pos..e.start]);
                    txt.push_str(&e.text);
                    pos = e.end;
                }
                txt.push_str(&self.src[pos..r.end]);
                match hdr_names.get(pi) {
                    Some(n) if !n.is_empty() => param_lets.push_str(&format!("let {} = {}; ", crate::one_line_pub(&txt), n)),
                    _ => self.fail(format!("closure {}: the template header has no parameter for pattern #{}", ord, pi)),
                }
            }
            derefs_prefix = param_lets;
            self.replace(s..e, format!("{} ", header));
            let before = self.src[s..e].to_string();
            self.note("spec", s, &before, "closure header with requires/ensures from the template");
        } else {
            for (pi, p) in c.inputs.iter().enumerate() {
                let inner_pat = match p { syn::Pat::Type(t) => &*t.pat, other => other };
                let is_simple = matches!(inner_pat, syn::Pat::Ident(i) if i.subpat.is_none()) || matches!(inner_pat, syn::Pat::Wild(_));
                if is_simple {
                    self.pat(p, false, &mut derefs);
                    continue;
                }
                // N3: a destructuring closure parameter becomes a variable plus a `let` at the head of the body
                let mut scratch = Cx { src: self.src, slot: self.slot, retarget: self.retarget, edits: vec![], log: vec![], seq: 0, err: None, loop_ord: 0, closure_ord: 0, base_line: self.base_line, loops_seen: vec![], closures_seen: vec![], let_counts: Default::default(), let_hints_used: vec![], arm_ord: 0, kind_ord: Default::default(), kloops_seen: vec![], loop_stack: vec![], if_ord: 0, if_stack: vec![], ext: Default::default() };
                scratch.pat(inner_pat, false, &mut derefs);
                let r = inner_pat.span().byte_range();
                let mut es: Vec<&Edit> = scratch.edits.iter().collect();
                es.sort_by_key(|e| (e.start, e.seq));
                let mut txt = String::new();
                let mut pos = r.start;
                for e in es {
                    if e.start < pos || e.end > r.end { continue; }
                    txt.push_str(&self.src[pos..e.start]);
                    txt.push_str(&e.text);
                    pos = e.end;
                }
                txt.push_str(&self.src[pos..r.end]);
                let before = self.src[r.clone()].to_string();
                self.replace(r.clone(), format!("__p{}", pi));
                derefs_prefix.push_str(&format!("let {} = __p{}; ", crate::one_line_pub(&txt), pi));
                self.note("N3", r.start, &before, &format!("__p{} + let at the head of the closure body", pi));
            }
        }
        let lets = format!("{}{}", derefs_prefix, Cx::deref_lets(&derefs));
        let needs_block = !lets.is_empty() || self.slot.closures.iter().any(|x| x.0 == ord);
        if needs_block {
            match &*c.body {
                syn::Expr::Block(b) if b.label.is_none() => {
                    if !lets.is_empty() {
                        let open = b.block.brace_token.span.open().byte_range().end;
                        self.insert(open, format!(" {}", lets));
                    }
                }
                other => {
                    let r = other.span().byte_range();
                    self.insert(r.start, format!("{{ {}", lets));
                    self.insert(r.end, " }");
                }
            }
        }
        self.visit_expr(&c.body);
    }

    fn visit_expr_for_loop(&mut self, f: &'ast syn::ExprForLoop) {
        let ord = self.loop_ord;
        self.loop_ord += 1;
        let mut derefs = vec![];
        self.pat(&f.pat, false, &mut derefs);
        let spec = self.loop_spec_k(ord, "for");
        let open = f.body.brace_token.span.open().byte_range();
        if contains_continue(&f.body, f.label.as_ref().map(|l| l.name.ident.to_string())) {
            // N13: for PAT in EXPR { .. }  =>  { let mut __it = IntoIterator::into_iter(EXPR); while let Some(PAT) = __it.next() <spec> { .. } }
            let for_kw = f.for_token.span().byte_range();
            let pat_r = f.pat.span().byte_range();
            let in_kw = f.in_token.span().byte_range();
            let ex = f.expr.span().byte_range();
            let whole = f.span().byte_range();
            let itn = format!("__it{}", ord);
            let before = self.src[for_kw.start..ex.end].to_string();
            // a loop label moves from the `for` to the `while` (a label on the enclosing block would not accept `continue`)
            let label = match &f.label {
                Some(l) => {
                    let lr = l.span().byte_range();
                    let t = format!("{} ", &self.src[lr.clone()]);
                    self.replace(lr.start..for_kw.start, String::new());
                    t
                }
                None => String::new(),
            };
            self.replace(for_kw.start..pat_r.start, format!("{{ let mut {} = IntoIterator::into_iter({}); {}while let Some(", itn, &self.src[ex.clone()], label));
            let clauses = spec.as_ref().map(|s| s.1.clone()).unwrap_or_default();
            self.replace(pat_r.end..open.start, format!(") = {}.next() {} ", itn, clauses));
            let _ = in_kw;
            self.insert(whole.end, " }");
            self.note("N13", for_kw.start, &before, "while-let desugaring of a for loop containing `continue`");
            // note: the iterated expression text is copied verbatim; nested rewrites inside it are not applied
        } else if let Some((it, clauses)) = spec {
            if let Some(it) = it {
                let ex = f.expr.span().byte_range();
                self.insert(ex.start, format!("{}: ", it));
            }
            self.insert(open.start, format!("{} ", clauses));
            self.visit_expr(&f.expr);
        } else {
            self.visit_expr(&f.expr);
        }
        if !derefs.is_empty() {
            let lets = Cx::deref_lets(&derefs);
            self.insert(open.end, format!(" {}", lets));
        }
        self.hint_for_loop(ord, &f.body);
        let __lbl = self.kloops_seen.last().map(|(k, n)| format!("{}#{}", k, n)).unwrap_or_default();
        self.loop_stack.push((__lbl, 0));
        self.if_stack.push(0);
        self.visit_block(&f.body);
        self.loop_stack.pop();
        self.if_stack.pop();
    }

    fn visit_expr_while(&mut self, w: &'ast syn::ExprWhile) {
        let ord = self.loop_ord;
        self.loop_ord += 1;
        if let Some((_, clauses)) = self.loop_spec_k(ord, "while") {
            let open = w.body.brace_token.span.open().byte_range();
            self.insert(open.start, format!("{} ", clauses));
        }
        self.hint_before_loop(w.span().byte_range().start);
        self.hint_for_loop(ord, &w.body);
        let __lbl = self.kloops_seen.last().map(|(k, n)| format!("{}#{}", k, n)).unwrap_or_default();
        self.loop_stack.push((__lbl, 0));
        self.if_stack.push(0);
        self.visit_expr(&w.cond);
        self.visit_block(&w.body);
        self.loop_stack.pop();
        self.if_stack.pop();
    }

    fn visit_expr_loop(&mut self, l: &'ast syn::ExprLoop) {
        let ord = self.loop_ord;
        self.loop_ord += 1;
        if let Some((_, clauses)) = self.loop_spec_k(ord, "loop") {
            let open = l.body.brace_token.span.open().byte_range();
            self.insert(open.start, format!("{} ", clauses));
        }
        self.hint_before_loop(l.span().byte_range().start);
        self.hint_for_loop(ord, &l.body);
        let __lbl = self.kloops_seen.last().map(|(k, n)| format!("{}#{}", k, n)).unwrap_or_default();
        self.loop_stack.push((__lbl, 0));
        self.if_stack.push(0);
        self.visit_block(&l.body);
        self.loop_stack.pop();
        self.if_stack.pop();
    }

    fn visit_expr_match(&mut self, m: &'ast syn::ExprMatch) {
        // N15: a match whose patterns are string literals (Verus gives such patterns no meaning) becomes
        // the equivalent if / else-if chain over vx_str_eq, arms in source order
        fn lits(p: &syn::Pat, out: &mut Vec<String>) -> bool {
            match p {
                syn::Pat::Lit(l) => match &l.lit {
                    syn::Lit::Str(s) => { out.push(s.token().to_string()); true }
                    _ => false,
                },
                syn::Pat::Or(o) => o.cases.iter().all(|c| lits(c, out)),
                syn::Pat::Paren(pp) => lits(&pp.pat, out),
                _ => false,
            }
        }
        let n = m.arms.len();
        let mut conds: Vec<Option<Vec<String>>> = vec![];
        let mut ok = n >= 2;
        for (i, a) in m.arms.iter().enumerate() {
            if a.guard.is_some() { ok = false; break; }
            let mut v = vec![];
            if lits(&a.pat, &mut v) {
                conds.push(Some(v));
            } else if i == n - 1 && matches!(a.pat, syn::Pat::Wild(_)) {
                conds.push(None);
            } else {
                ok = false;
                break;
            }
        }
        if ok && conds.iter().any(|c| c.is_some()) && conds.last().map(|c| c.is_none()).unwrap_or(false) {
            self.seq += 1;
            let var = format!("__m{}", self.seq);
            let whole = m.span().byte_range();
            let scrut = m.expr.span().byte_range();
            let open = m.brace_token.span.open().byte_range();
            let before = crate::one_line_pub(&self.src[whole.start..open.end]);
            // a scrutinee without calls (`name`, `&*buf`) is repeated in every test; otherwise it is bound once
            fn simple(e: &syn::Expr) -> bool {
                match e {
                    syn::Expr::Path(_) => true,
                    syn::Expr::Reference(r) => simple(&r.expr),
                    syn::Expr::Unary(u) => matches!(u.op, syn::UnOp::Deref(_)) && simple(&u.expr),
                    syn::Expr::Paren(p) => simple(&p.expr),
                    syn::Expr::Field(f) => simple(&f.base),
                    _ => false,
                }
            }
            let is_simple = simple(&m.expr);
            let var = if is_simple { format!("({})", &self.src[scrut.clone()]) } else { var };
            if is_simple {
                self.replace(whole.start..open.end, "");
            } else {
                self.replace(whole.start..scrut.start, format!("{{ let {} = ", var));
                self.replace(scrut.end..open.end, "; ");
            }
            for (i, a) in m.arms.iter().enumerate() {
                let ar = a.span().byte_range();
                let br = a.body.span().byte_range();
                let head = match &conds[i] {
                    Some(ls) => {
                        let c: Vec<String> = ls.iter().map(|l| format!("vx_str_eq({}, {})", var, l)).collect();
                        format!("{}if {} {{ ", if i == 0 { "" } else { "else " }, c.join(" || "))
                    }
                    None => "else { ".to_string(),
                };
                self.replace(ar.start..br.start, head);
                let end = match &a.comma { Some(c) => c.span().byte_range().end, None => br.end };
                self.replace(br.end..end, " }");
                self.visit_expr(&a.body);
            }
            self.note("N15", whole.start, &before, "if / else-if chain over vx_str_eq (string literal patterns)");
            if is_simple {
                // the closing brace of the match goes away with its opening
                let close = m.brace_token.span.close().byte_range();
                self.replace(close, "");
            } else {
                self.visit_expr(&m.expr);
            }
            return;
        }
        // N16: Verus loses track of a `&mut` parameter that is changed in the body of an arm with a guard.
        // `P if g => B, .., _ => D` becomes `P => if g { B } else { D }, .., _ => D` when no arm between the
        // guarded one and the final `_` can match what P matches (different enum variants), so that a failed
        // guard can only fall to D. D is copied with its own rewrites applied.
        fn heads(p: &syn::Pat, out: &mut Vec<String>) -> bool {
            match p {
                syn::Pat::Path(pp) => { out.push(pp.path.segments.last().unwrap().ident.to_string()); pp.path.segments.len() >= 2 }
                syn::Pat::TupleStruct(t) => { out.push(t.path.segments.last().unwrap().ident.to_string()); true }
                syn::Pat::Struct(t) => { out.push(t.path.segments.last().unwrap().ident.to_string()); true }
                syn::Pat::Or(o) => o.cases.iter().all(|c| heads(c, out)),
                syn::Pat::Paren(pp) => heads(&pp.pat, out),
                syn::Pat::Reference(r) => heads(&r.pat, out),
                _ => false,
            }
        }
        if n >= 2 && m.arms.iter().any(|a| a.guard.is_some()) {
            let last = &m.arms[n - 1];
            if matches!(last.pat, syn::Pat::Wild(_)) && last.guard.is_none() {
                let d = last.body.span().byte_range();
                let norm = |r: std::ops::Range<usize>| -> String { self.src[r].split_whitespace().collect::<Vec<_>>().join(" ") };
                let pats: Vec<String> = m.arms.iter().map(|a| norm(a.pat.span().byte_range())).collect();
                let mut plan: Vec<(usize, usize)> = vec![];
                let mut k = 0;
                while k < n - 1 {
                    if m.arms[k].guard.is_none() { k += 1; continue; }
                    // a run of guarded arms over the same pattern
                    let mut r = k + 1;
                    while r < n - 1 && m.arms[r].guard.is_some() && pats[r] == pats[k] { r += 1; }
                    let mut ok = true;
                    if r < n - 1 {
                        let mut hk = vec![];
                        if !heads(&m.arms[k].pat, &mut hk) { ok = false; }
                        for j in r..n - 1 {
                            let mut hj = vec![];
                            if !heads(&m.arms[j].pat, &mut hj) || hj.iter().any(|h| hk.contains(h)) { ok = false; }
                        }
                    }
                    if ok { plan.push((k, r)); }
                    k = r;
                }
                for (k, r) in plan {
                    for i in k..r {
                        let a = &m.arms[i];
                        let g = &a.guard.as_ref().unwrap().1;
                        let ar = a.span().byte_range();
                        let pr = a.pat.span().byte_range();
                        let gr = g.span().byte_range();
                        let br = a.body.span().byte_range();
                        let before = crate::one_line_pub(&self.src[pr.start..br.start]);
                        if i == k {
                            self.replace(pr.end..gr.start, " => if ");
                        } else {
                            self.replace(ar.start..gr.start, " else if ");
                        }
                        self.replace(gr.end..br.start, " { ");
                        let end = match &a.comma { Some(c) => c.span().byte_range().end, None => br.end };
                        self.seq += 1;
                        if i + 1 == r {
                            self.edits.push(Edit { start: br.end, end, text: " } else { \u{1} },".to_string(), seq: self.seq, copy: Some((d.start, d.end)) });
                        } else {
                            self.edits.push(Edit { start: br.end, end, text: " }".to_string(), seq: self.seq, copy: None });
                        }
                        self.note("N16", pr.start, &before, "P => if g { B } [else if g2 { B2 }..] else { <copy of the `_` arm> } (guards moved into the arm)");
                    }
                }
            }
        }
        syn::visit::visit_expr_match(self, m);
    }

    fn visit_expr_if(&mut self, i: &'ast syn::ExprIf) {
        // structural hint anchors: if_then K / if_then <loop>.K -> start of the then-block of the K-th `if`
        let ord = self.if_ord;
        self.if_ord += 1;
        let mut keys = vec![format!("if_then {}", ord)];
        if let (Some((label, _)), Some(n)) = (self.loop_stack.last(), self.if_stack.last_mut()) {
            keys.push(format!("if_then {}.{}", label, n));
            *n += 1;
        }
        let hs: Vec<(String, String)> = self.slot.hints.iter().filter(|h| keys.contains(&h.0)).cloned().collect();
        for (w, t) in hs {
            let open = i.then_branch.brace_token.span.open().byte_range().end;
            self.insert(open, format!(" {} ", t));
            self.let_hints_used.push(w);
        }
        syn::visit::visit_expr_if(self, i);
    }

    fn visit_expr_macro(&mut self, m: &'ast syn::ExprMacro) {
        self.handle_macro(&m.mac, m.span().byte_range());
    }

    fn visit_stmt(&mut self, st: &'ast syn::Stmt) {
        self.ext.stmt_stack.push(st.span().byte_range().start);
        syn::visit::visit_stmt(self, st);
        self.ext.stmt_stack.pop();
    }

    fn visit_expr_return(&mut self, r: &'ast syn::ExprReturn) {
        // structural hint anchor: before the K-th `return` (source order): return E => { HINT return E }
        let k = self.ext.return_ord;
        self.ext.return_ord += 1;
        let key = format!("before_return {}", k);
        let hs: Vec<(String, String)> = self.slot.hints.iter().filter(|h| h.0 == key).cloned().collect();
        if !hs.is_empty() {
            let rr = r.span().byte_range();
            let mut t = String::from("{ ");
            for (w, h) in hs {
                t.push_str(&h);
                t.push(' ');
                self.let_hints_used.push(w);
            }
            self.insert(rr.start, t);
            self.insert(rr.end, " }");
        }
        syn::visit::visit_expr_return(self, r);
    }

    fn visit_stmt_macro(&mut self, m: &'ast syn::StmtMacro) {
        // keep a trailing `;`
        let r = m.mac.span().byte_range();
        self.handle_macro(&m.mac, r);
    }

    fn visit_expr_method_call(&mut self, m: &'ast syn::ExprMethodCall) {
        let name = m.method.to_string();
        {
            // N18: `//@letlift .method#k as v`: the k-th call of `.method` is bound to `v` in a `let` placed before the
            // statement it occurs in, and `v` stands in its place
            let k = *self.ext.mcall_counts.get(&name).unwrap_or(&0);
            self.ext.mcall_counts.insert(name.clone(), k + 1);
            let hit = self.slot.letlifts.iter().position(|(mn, mk, _)| mn == &name && *mk == k);
            if let Some(ix) = hit {
                let var = self.slot.letlifts[ix].2.clone();
                let whole = m.span().byte_range();
                match self.ext.stmt_stack.last().cloned() {
                    Some(st) => {
                        self.ext.letlifts_seen.push(ix);
                        let before = self.src[whole.clone()].to_string();
                        // the new binding is an `after_let` anchor like any other
                        let lk = *self.let_counts.get(&var).unwrap_or(&0);
                        self.let_counts.insert(var.clone(), lk + 1);
                        let keys = if lk == 0 { vec![format!("after_let {}", var), format!("after_let {}#0", var)] } else { vec![format!("after_let {}#{}", var, lk)] };
                        let hs: Vec<(String, String)> = self.slot.hints.iter().filter(|h| keys.contains(&h.0)).cloned().collect();
                        let mut tail = String::new();
                        for (w, t) in hs {
                            tail.push_str(&t);
                            tail.push(' ');
                            self.let_hints_used.push(w);
                        }
                        self.seq += 1;
                        self.edits.push(Edit { start: st, end: st, text: format!("let {} = \u{1}; {}", var, tail), seq: self.seq, copy: Some((whole.start, whole.end)) });
                        self.seq += 1;
                        self.edits.push(Edit { start: whole.start, end: whole.end, text: format!("\u{2}{}", var), seq: self.seq, copy: None });
                        self.note("N18", whole.start, &before, &format!("let {} = <the call>; before the statement, {} in its place", var, var));
                    }
                    None => self.fail(format!("line {}: letlift of a call outside a statement", self.line(whole.start))),
                }
            }
        }
        let key = format!(".{}", name);
        let hit = self.slot.retarget.iter().chain(self.retarget.iter()).find(|(a, _)| a == &key).map(|(_, b)| b.clone());
        let hit = match hit {
            Some(t) if t.starts_with('.') => {
                // method rename: recv.method(args) => recv.target(args)
                let r = m.method.span().byte_range();
                let before = self.src[r.clone()].to_string();
                self.replace(r.clone(), t[1..].to_string());
                self.note("N11", r.start, &format!(".{}", before), &t);
                None
            }
            other => other,
        };
        if let Some(target) = hit {
            // recv.method(args) => target(recv, args); a target written `&f` takes the receiver by reference: f(&recv, args)
            let whole = m.span().byte_range();
            let recv = m.receiver.span().byte_range();
            let before = self.src[whole.clone()].to_string();
            let (target, amp) = match target.strip_prefix('&') { Some(t) => (t.to_string(), "&"), None => (target.clone(), "") };
            self.insert(recv.start, format!("{}({}", target, amp));
            let paren_open = m.paren_token.span.open().byte_range();
            let sep = if m.args.is_empty() { "" } else { ", " };
            self.replace(recv.end..paren_open.end, sep);
            self.note("N11", whole.start, &before, &format!("{}(<receiver>, ..)", target));
        }
        // N5: constructor used as a function value
        for a in &m.args {
            if let syn::Expr::Path(p) = a {
                // a function path used as a value may be given a specified eta-expansion by the template:
                // `//@retarget Type::f => |x: T| -> (o: U) ensures .. { Type::f(x) }`
                let ptxt: String = self.src[a.span().byte_range()].split_whitespace().collect();
                let hit = self.slot.retarget.iter().find(|(k, v)| k == &ptxt && v.starts_with('|')).map(|(_, v)| v.clone());
                if let Some(rep) = hit {
                    let r = a.span().byte_range();
                    self.replace(r.clone(), rep.clone());
                    self.note("N5", r.start, &ptxt, &rep);
                    continue;
                }
                if let Some(last) = p.path.segments.last() {
                    let nm = last.ident.to_string();
                    let upper = nm.chars().next().map(|c| c.is_uppercase()).unwrap_or(false);
                    if upper && (p.path.segments.len() >= 2 || nm == "Some" || nm == "Ok" || nm == "Err") && ["map", "map_err", "and_then", "or_else", "ok_or_else"].contains(&name.as_str()) {
                        let r = a.span().byte_range();
                        let txt = self.src[r.clone()].to_string();
                        // an enum variant `T::V` gets a specified eta-expansion so that callers see its result
                        let rep = if p.path.segments.len() >= 2 {
                            let ty: Vec<String> = p.path.segments.iter().take(p.path.segments.len() - 1).map(|s| s.ident.to_string()).collect();
                            format!("|__x| -> (__r: {}) ensures __r == {}(__x) {{ {}(__x) }}", ty.join("::"), txt, txt)
                        } else {
                            format!("|__x| {}(__x)", txt)
                        };
                        self.replace(r.clone(), rep.clone());
                        self.note("N5", r.start, &txt, &rep);
                    }
                }
            }
        }
        syn::visit::visit_expr_method_call(self, m);
    }

    fn visit_expr_reference(&mut self, r: &'ast syn::ExprReference) {
        // N11: `&s[n..]` => target(s, n) when the template retargets `[..]`
        if r.mutability.is_none() {
            if let syn::Expr::Index(ix) = &*r.expr {
                if let syn::Expr::Range(rg) = &*ix.index {
                    if rg.end.is_none() && matches!(rg.limits, syn::RangeLimits::HalfOpen(_)) {
                        if let Some(start) = &rg.start {
                            let hit = self.slot.retarget.iter().chain(self.retarget.iter()).find(|(a, _)| a == "[..]").map(|(_, b)| b.clone());
                            if let Some(target) = hit {
                                let whole = r.span().byte_range();
                                let base = ix.expr.span().byte_range();
                                let st = start.span().byte_range();
                                let before = self.src[whole.clone()].to_string();
                                self.replace(whole.start..base.start, format!("{}(", target));
                                self.replace(base.end..st.start, ", ");
                                self.replace(st.end..whole.end, ")");
                                self.note("N11", whole.start, &before, &format!("{}(<str>, <from>)", target));
                                self.visit_expr(&ix.expr);
                                self.visit_expr(start);
                                return;
                            }
                        }
                    }
                }
            }
        }
        syn::visit::visit_expr_reference(self, r);
    }

    fn visit_expr_call(&mut self, c: &'ast syn::ExprCall) {
        if let syn::Expr::Path(p) = &*c.func {
            let key = norm(&p.to_token_stream().to_string());
            let hit = self.slot.retarget.iter().chain(self.retarget.iter()).find(|(a, b)| !a.starts_with('.') && !b.starts_with('|') && norm(a) == key).map(|(_, b)| b.clone());
            if let Some(target) = hit {
                let r = c.func.span().byte_range();
                let before = self.src[r.clone()].to_string();
                self.replace(r.clone(), target.clone());
                self.note("N11", r.start, &before, &target);
            }
        }
        syn::visit::visit_expr_call(self, c);
    }
}

fn expand_local_macros(text: &str, names: &[String], ix: &Index, file: &str, log: &mut Vec<Value>, base_line: usize) -> Result<String, Undecided> {
    let mut text = text.to_string();
    for name in names {
        // a macro_rules! defined inside the body itself (a local helper): its definition is blanked out and its
        // invocations are expanded from it
        let mut local: Option<(Vec<String>, String)> = None;
        if let Ok(block) = syn::parse_str::<syn::Block>(&text) {
            for st in &block.stmts {
                if let syn::Stmt::Item(syn::Item::Macro(m)) = st {
                    if m.mac.path.is_ident("macro_rules") && m.ident.as_ref().map(|i| i == name).unwrap_or(false) {
                        let (params, body_range) = crate::index::parse_macro_rules(m, &text)?;
                        let body = text[body_range].to_string();
                        let r = m.span().byte_range();
                        let blank: String = text[r.clone()].chars().map(|c| if c == '\n' { '\n' } else { ' ' }).collect();
                        log.push(json!({"rule": "N10", "line": base_line + line_of(&text, r.start) - 1, "before": crate::one_line_pub(&text[r.clone()]), "after": "(local macro definition: expanded at its uses)"}));
                        text.replace_range(r, &blank);
                        local = Some((params, body));
                        break;
                    }
                }
            }
        }
        let pat = format!("{}!(", name);
        let mut guard = 0;
        while let Some(p) = text.find(&pat) {
            guard += 1;
            if guard > 200 {
                bail!("macro {} expands without end", name);
            }
            let start = p + pat.len();
            let mut depth = 1i32;
            let mut end = None;
            let mask = crate::index::literal_mask(&text[start..]);
            for (i, c) in text[start..].char_indices() {
                if mask[i] {
                    continue;
                }
                if c == '(' {
                    depth += 1;
                } else if c == ')' {
                    depth -= 1;
                    if depth == 0 {
                        end = Some(start + i);
                        break;
                    }
                }
            }
            let end = end.ok_or_else(|| Undecided(format!("unbalanced {}!(", name)))?;
            let args = text[start..end].to_string();
            let vf = match &local {
                Some((params, body)) => {
                    let argv: Vec<String> = crate::index::split_top_commas(&args);
                    if argv.len() != params.len() {
                        bail!("macro {}: {} params, {} args", name, params.len(), argv.len());
                    }
                    let mut b = body.clone();
                    let mut order: Vec<usize> = (0..params.len()).collect();
                    order.sort_by_key(|i| std::cmp::Reverse(params[*i].len()));
                    for i in order {
                        b = crate::index::replace_metavar(&b, &params[i], argv[i].trim());
                    }
                    // parenthesised: a bare block right after a loop body confuses Verus's clause parser
                    format!("({{ {} }})", b.trim())
                }
                None => ix.expand_macro_text(name, &args, Some(file))?,
            };
            let before = text[p..end + 1].to_string();
            let line = base_line + line_of(&text, p) - 1;
            let rep = crate::one_line_pub(&vf);
            log.push(json!({"rule": "N10", "line": line, "before": crate::one_line_pub(&before), "after": rep}));
            text.replace_range(p..end + 1, &rep);
        }
    }
    Ok(text)
}

pub fn rewrite_body(slot: &SlotSpec, found: &Found, retarget: &[(String, String)], ix: &Index) -> Result<(String, Vec<Value>), Undecided> {
    let mut log: Vec<Value> = vec![];
    let mut text = found.body_text.clone();
    if found.lifted.is_some() {
        log.push(json!({"rule": "N9", "line": found.body_line_start, "before": found.lifted, "after": "lifted into a function with the template's signature"}));
    }
    if found.sig_norm.is_none() && found.lifted.is_none() {
        log.push(json!({"rule": "N8", "line": found.item_line_start, "before": found.sig_text, "after": "signature replaced by the template's (monomorphised / re-typed)"}));
    }
    if !slot.expand.is_empty() {
        text = expand_local_macros(&text, &slot.expand, ix, &found.file, &mut log, found.body_line_start)?;
    }
    for (a, b) in &slot.substs {
        let n = text.matches(a.as_str()).count();
        if n != 1 {
            bail!("lost anchor: subst pattern `{}` matches {} times", a, n);
        }
        if a.matches('\n').count() != b.matches('\n').count() {
            bail!("subst `{}` changes the number of lines", a);
        }
        let p = text.find(a.as_str()).unwrap();
        log.push(json!({"rule": "S", "line": found.body_line_start + line_of(&text, p) - 1, "before": a, "after": b}));
        text = text.replacen(a.as_str(), b, 1);
    }
    let block: syn::Block = syn::parse_str(&text).map_err(|e| Undecided(format!("body does not parse: {}", e)))?;
    let mut cx = Cx { src: &text, slot, retarget, edits: vec![], log: vec![], seq: 0, err: None, loop_ord: 0, closure_ord: 0, base_line: found.body_line_start, loops_seen: vec![], closures_seen: vec![], let_counts: Default::default(), let_hints_used: vec![], arm_ord: 0, kind_ord: Default::default(), kloops_seen: vec![], loop_stack: vec![], if_ord: 0, if_stack: vec![], ext: Default::default() };
    for st in &block.stmts {
        cx.visit_stmt(st);
    }
    // N17: a `loop` that is the tail expression of the body and exits with `break VALUE`: each such break
    // (not inside a nested loop or closure) becomes `return VALUE` - the value of the loop is the value of the function
    if found.lifted.is_none() {
        if let Some(syn::Stmt::Expr(syn::Expr::Loop(l), None)) = block.stmts.last() {
            struct B { hits: Vec<std::ops::Range<usize>> }
            impl<'ast> Visit<'ast> for B {
                fn visit_expr_break(&mut self, b: &'ast syn::ExprBreak) {
                    if b.expr.is_some() && b.label.is_none() {
                        self.hits.push(b.break_token.span().byte_range());
                    }
                }
                fn visit_expr_closure(&mut self, _: &'ast syn::ExprClosure) {}
                fn visit_expr_for_loop(&mut self, _: &'ast syn::ExprForLoop) {}
                fn visit_expr_while(&mut self, _: &'ast syn::ExprWhile) {}
                fn visit_expr_loop(&mut self, _: &'ast syn::ExprLoop) {}
            }
            let mut b = B { hits: vec![] };
            b.visit_block(&l.body);
            for r in b.hits {
                cx.replace(r.clone(), "return");
                cx.note("N17", r.start, "break VALUE", "return VALUE (the loop is the tail expression of the function)");
            }
        }
    }
    // hints at structural anchors
    let open = block.brace_token.span.open().byte_range().end;
    let close = block.brace_token.span.close().byte_range().start;
    for (w, t) in &slot.hints {
        if w == "head" {
            cx.insert(open, format!(" {} ", t));
        } else if w == "tail" {
            // before the tail expression if there is one, else before the closing brace
            let at = match block.stmts.last() {
                Some(syn::Stmt::Expr(e, None)) => e.span().byte_range().start,
                _ => close,
            };
            cx.insert(at, format!(" {} ", t));
        } else if w == "result" {
            // bind the tail expression, run the hint, return the binding
            match block.stmts.last() {
                Some(syn::Stmt::Expr(e, None)) => {
                    let r = e.span().byte_range();
                    cx.insert(r.start, "let __vx_r = ");
                    cx.insert(r.end, format!("; {} __vx_r", t));
                }
                _ => bail!("hint `result`: the body has no tail expression"),
            }
        } else if let Some(anchor) = w.strip_prefix("before ") {
            let n = text.matches(anchor).count();
            if n != 1 {
                bail!("lost anchor: hint anchor `{}` matches {} times", anchor, n);
            }
            let p = text.find(anchor).unwrap();
            cx.insert(p, format!(" {} ", t));
        } else if let Some(anchor) = w.strip_prefix("after ") {
            let n = text.matches(anchor).count();
            if n != 1 {
                bail!("lost anchor: hint anchor `{}` matches {} times", anchor, n);
            }
            let p = text.find(anchor).unwrap() + anchor.len();
            cx.insert(p, format!(" {} ", t));
        } else if w.starts_with("before_return ") {
            if !cx.let_hints_used.contains(w) {
                bail!("lost anchor: hint `{}`: the body has no such return", w);
            }
        } else if w.starts_with("after_let ") || w.starts_with("arm_start ") || w.starts_with("arm_end ") || w.starts_with("if_then ") {
            if !cx.let_hints_used.contains(w) {
                bail!("lost anchor: hint `{}`: no such let binding", w);
            }
        } else if w.starts_with("loop_start ") || w.starts_with("loop_end ") || w.starts_with("loop_before ") {
            if !cx.let_hints_used.contains(w) {
                bail!("lost anchor: hint `{}` but the body has no such loop ({} loops)", w, cx.loops_seen.len());
            }
        } else {
            bail!("unknown hint position `{}`", w);
        }
    }
    // N9: a lifted arm whose value is the payload of what the enclosing function returns (`let res = match .. {arm}; Some(res)`
    // next to `return Some(..)` inside the arm): the tail expression E becomes F(E), as the template says
    if let Some(fw) = &slot.wrap_tail {
        if found.lifted.is_none() {
            bail!("wrap_tail on a slot that is not lifted");
        }
        match block.stmts.last() {
            Some(syn::Stmt::Expr(e, None)) => {
                let r = e.span().byte_range();
                cx.insert(r.start, format!("{}(", fw));
                cx.insert(r.end, ")");
                cx.log.push(json!({"rule": "N9", "line": found.item_line_end, "before": "", "after": format!("tail expression wrapped in {}(..)", fw)}));
            }
            _ => bail!("wrap_tail: the lifted body has no tail expression"),
        }
    }
    if let Some(ret) = &slot.lift_return {
        if found.lifted.is_none() {
            bail!("lift_return on a slot that is not lifted");
        }
        cx.insert(close, format!(" {} ", ret));
        cx.log.push(json!({"rule": "N9", "line": found.item_line_end, "before": "", "after": format!("lifted statements return `{}`", ret)}));
    }
    for (ix, (mn, mk, _)) in slot.letlifts.iter().enumerate() {
        if !cx.ext.letlifts_seen.contains(&ix) {
            bail!("lost anchor: letlift .{}#{}: the body has no such call", mn, mk);
        }
    }
    for (n, _, _) in &slot.loops {
        if !cx.loops_seen.contains(n) {
            bail!("lost anchor: loop {} has a contract but the body has {} loops", n, cx.loops_seen.len());
        }
    }
    for (k, n, _, _) in &slot.kloops {
        if !cx.kloops_seen.contains(&(k.clone(), *n)) {
            bail!("lost anchor: {} loop #{} has a contract but the body has no such loop", k, n);
        }
    }
    for (n, _) in &slot.closures {
        if !cx.closures_seen.contains(n) {
            bail!("lost anchor: closure {} has a contract but the body has {} closures", n, cx.closures_seen.len());
        }
    }
    if let Some(e) = cx.err.take() {
        bail!("{}", e);
    }
    // apply edits
    let mut edits = std::mem::take(&mut cx.edits);
    // insertions at a position come before a replacement that starts there
    edits.sort_by(|a, b| (a.start, a.end != a.start, a.seq).cmp(&(b.start, b.end != b.start, b.seq)));
    let mut out = String::new();
    let mut pos = 0usize;
    let mut lifted_until = 0usize;
    for e in &edits {
        if e.end <= lifted_until && e.start < lifted_until && e.copy.is_none() {
            // a rewrite inside a call that N18 moved into a `let`: it is applied in the copy
            continue;
        }
        if e.start < pos {
            bail!("overlapping rewrites at line {} (construct outside the catalogue)", found.body_line_start + line_of(&text, e.start) - 1);
        }
        out.push_str(&text[pos..e.start]);
        if let Some((cs, ce)) = e.copy {
            // the copied range, with the rewrites that fall inside it
            let mut inner = String::new();
            let mut p = cs;
            for f in &edits {
                if f.start >= cs && f.end <= ce {
                    if f.text.starts_with('\u{2}') && f.start == cs && f.end == ce {
                        continue;
                    }
                    if e.text.starts_with("let ") && f.start == f.end && (f.start == cs || f.start == ce) {
                        // an insertion at the boundary belongs to the surrounding expression
                        continue;
                    }
                    if f.copy.is_some() {
                        bail!("nested guard copies (N16) at line {}", found.body_line_start + line_of(&text, f.start) - 1);
                    }
                    if f.start < p {
                        bail!("overlapping rewrites at line {} (construct outside the catalogue)", found.body_line_start + line_of(&text, f.start) - 1);
                    }
                    inner.push_str(&text[p..f.start]);
                    inner.push_str(&f.text);
                    p = f.end;
                }
            }
            inner.push_str(&text[p..ce]);
            if inner.contains("//") {
                bail!("N16: the copied `_` arm contains a comment (line {})", found.body_line_start + line_of(&text, cs) - 1);
            }
            let inner = inner.replace('\n', " ");
            out.push_str(&e.text.replace('\u{1}', &inner));
        } else if let Some(t) = e.text.strip_prefix('\u{2}') {
            out.push_str(t);
            lifted_until = e.end;
        } else {
            out.push_str(&e.text);
        }
        pos = e.end;
        // deleted newlines must be kept so that lines do not move
        let removed = text[e.start..e.end].matches('\n').count();
        let added = e.text.matches('\n').count();
        if added > removed {
            bail!("rewrite adds lines");
        }
        for _ in 0..(removed - added) {
            out.push('\n');
        }
    }
    out.push_str(&text[pos..]);
    log.extend(cx.log);
    Ok((out, log))
}
