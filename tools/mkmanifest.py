#!/usr/bin/env python3
"""Regenerates MANIFEST.json from units/registry.json + tools/manifest_texts.json (claimed properties) and properties.jsonl."""
import json, os
R = os.path.dirname(os.path.dirname(os.path.abspath(__file__)))
reg = json.load(open(os.path.join(R, 'units/registry.json')))
texts = json.load(open(os.path.join(R, 'tools/manifest_texts.json')))
props = [json.loads(l) for l in open(os.path.join(R, 'properties.jsonl'))]
checks, na = [], []
for p in props:
    pid = p['id']
    if pid in reg['properties'] and pid in texts['claimed']:
        t = texts['claimed'][pid]
        checks.append({
            "property_id": pid,
            "quick_cmd": "./vx check %s --tier quick" % pid,
            "thorough_cmd": "./vx check %s --tier thorough" % pid,
            "evidence_file": "evidence/%s.json" % pid,
            "replay_cmd_template": "./vx replay {path}",
            "engine": t.get("engine", "verus"),
            "level_claimed": {"category": "proof", "text": t["text"], "design_ref": t["design_ref"]},
            "level_note": t["note"],
            "technique": t["technique"],
        })
    else:
        na.append({"property_id": pid, "reason": texts['not_applicable'].get(pid, 'designed in DESIGN.md 5, unit not built; not claimed')})
m = {
    "version": 1,
    "setup_cmd": "./vx setup",
    "hooks": {"guard": "rink_verif", "enable": "no hooks exist: the verified text is extracted from /repo's working tree on every run (Verus) or include!d as is (Kani)",
              "baseline_off_cmd": "cd /repo && cargo test --workspace --no-fail-fast --offline", "source_commits": [], "add_only": True},
    "engines": [
        {"name": "verus", "path": "vx (vxlib/verus.py, tools/extract, shims/, units/)", "serves_properties": [c["property_id"] for c in checks if c["engine"] != "kani"],
         "kind_free_text": "contract-based deductive verification: real function bodies extracted mechanically from /repo on every run, contracts from units/*.vx.rs, discharged by Verus/Z3"},
        {"name": "kani", "path": "vx (vxlib/kani.py, kani/)", "serves_properties": [c["property_id"] for c in checks if c["engine"] == "kani"],
         "kind_free_text": "loop-free full-domain Kani harnesses over the real source (include!), complete proofs of one-step contracts"},
    ],
    "checks": checks,
    "notes": "exit 0 = holds, 1 = VIOLATION (named obligation fails), 2 = undecided (extraction/tool limit; never an alarm). See DESIGN.md.",
    "not_applicable": na,
}
json.dump(m, open(os.path.join(R, 'MANIFEST.json'), 'w'), indent=1)
print('claimed:', [c['property_id'] for c in checks])
