#!/bin/sh
# usage: confirm_seed.sh <worktree> <seed dir> <crate dir: core|sandbox> <pkg> <k>
# confirms: demo passes without the patch, fails with it; (the caller runs the suite separately)
WT=$1; SD=$2; CR=$3; PKG=$4; K=$5
cd $WT || exit 9
git checkout -q -- . 
mkdir -p $CR/tests
cp $SD/demo.rs $CR/tests/seed_demo_$K.rs
cargo test --offline -p $PKG --test seed_demo_$K > /tmp/confirm_$$.log 2>&1; a=$?
git apply $SD/patch.diff || { echo "patch does not apply"; exit 9; }
cargo test --offline -p $PKG --test seed_demo_$K > /tmp/confirm2_$$.log 2>&1; b=$?
echo "seed $SD: demo without patch rc=$a (want 0), with patch rc=$b (want !=0)"
grep -E "^test result|panicked|assertion" /tmp/confirm2_$$.log | head -5
rm -f /tmp/confirm_$$.log /tmp/confirm2_$$.log $CR/tests/seed_demo_$K.rs
git checkout -q -- .
