#!/usr/bin/env python3
"""keep_seed.py <prop> <k> <seed dir> <needs> <ran> <caught-by...>  -- copies a confirmed seeded change into /verif/seeded/<prop>-<k>/"""
import sys, os, shutil, json
prop, k, sd, needs, ran = sys.argv[1:6]
caught = sys.argv[6:]
dst = '/verif/seeded/%s-%s' % (prop, k)
os.makedirs(dst, exist_ok=True)
for f in os.listdir(sd):
    if os.path.isfile(os.path.join(sd, f)):
        shutil.copy(os.path.join(sd, f), os.path.join(dst, f))
meta = {'property': prop, 'breaks': open(os.path.join(sd, 'README.txt')).read()[:1500] if os.path.exists(os.path.join(sd, 'README.txt')) else '',
        'needs_to_manifest': needs, 'confirmed': ran, 'detected_by': caught}
json.dump(meta, open(os.path.join(dst, 'meta.json'), 'w'), indent=1)
print('kept', dst)
