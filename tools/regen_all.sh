#!/bin/sh
# regenerates every evidence file on the clean /repo tree (run before committing after seed tests) and validates them
cd /repo && git diff --quiet || { echo "/repo is dirty"; exit 9; }
cd /verif
rc=0
for p in $(python3 -c "import json;print(' '.join(c['property_id'] for c in json.load(open('MANIFEST.json'))['checks']))"); do
  ./vx check $p --tier quick 2>&1 | tail -1 | grep -Eq " 0 violations, [0-9]+ known findings, 0 undecided" || { echo "NOT CLEAN: $p"; rc=1; }
done
python3-vt - <<'PY'
import json,jsonschema,glob
sch=json.load(open('/root/.vp/EVIDENCE.schema.json'))
for f in sorted(glob.glob('/verif/evidence/*.json')):
    e=json.load(open(f)); jsonschema.validate(e,sch)
    c=e['coverage']
    assert c.get('obligations')==c.get('discharged'), f
jsonschema.validate(json.load(open('/verif/MANIFEST.json')), json.load(open('/root/.vp/MANIFEST.schema.json')))
print('evidence and manifest valid')
PY
exit $rc
