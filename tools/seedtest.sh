#!/bin/sh
# usage: tools/seedtest.sh <property> <patch.diff>   -- applies the patch to /repo, runs the quick check, reverts
set -u
P=$1; D=$2
cd /repo || exit 9
git diff --quiet || { echo "/repo is dirty"; exit 9; }
git apply "$D" || { echo "patch does not apply"; exit 9; }
cd /verif && ./vx check "$P" --tier quick; rc=$?
cd /repo && git checkout -- . 
echo "seedtest: property=$P patch=$D exit=$rc"
exit $rc
