#!/bin/sh
# usage: tools/seedtest.sh <property> <patch.diff>   -- applies the patch to /repo, runs the quick check, reverts
# The evidence file of the property is put back afterwards: what is committed must describe the clean tree.
set -u
P=$1; D=$2
cd /repo || exit 9
git diff --quiet || { echo "/repo is dirty"; exit 9; }
git apply "$D" || { echo "patch does not apply"; exit 9; }
[ -f /verif/evidence/$P.json ] && cp /verif/evidence/$P.json /verif/work/evidence_keep_$P.json
cd /verif && ./vx check "$P" --tier quick; rc=$?
[ -f /verif/work/evidence_keep_$P.json ] && mv /verif/work/evidence_keep_$P.json /verif/evidence/$P.json
cd /repo && git checkout -- . 
echo "seedtest: property=$P patch=$D exit=$rc"
exit $rc
