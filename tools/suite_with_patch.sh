#!/bin/sh
# usage: suite_with_patch.sh <worktree> <patch> -> prints number of passed/failed tests of the baseline suite with the patch
WT=$1; PATCH=$2
cd $WT || exit 9
git checkout -q -- .
git apply $PATCH || { echo "patch does not apply"; exit 9; }
cargo test --workspace --no-fail-fast --offline > $WT/suite.log 2>&1
p=$(grep -E "^test result" $WT/suite.log | sed -E 's/.* ([0-9]+) passed.*/\1/' | paste -sd+ | bc)
f=$(grep -E "^test result" $WT/suite.log | sed -E 's/.*; ([0-9]+) failed.*/\1/' | paste -sd+ | bc)
echo "suite with $PATCH: passed=$p failed=$f (baseline on this tree: passed=152 + doctests; the sandbox 'integration' target fails with or without any patch)"
grep -E "^test .* FAILED|^error: test failed" $WT/suite.log | head
git checkout -q -- .
