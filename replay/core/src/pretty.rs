// Bounded replay for C06 against the REAL rink-core: every number that Rink shows with a unit is read back
// through Rink itself. For a reply part P of a query whose quantity is Q:
//   eval(P.format("e u")) == Q                    exactly, when an exact numeral is shown
//   eval(P.format("a u")) == Q within one unit in the last printed digit, when an approximate numeral is shown
//   eval("1 " + P.dimensions) has the dimensionality of Q, and P.quantity names that dimensionality
// usage: vx-replay-pretty [--sweep | --sweep-deep]   (queries are also read from stdin, one per line, with --stdin)
// prints `FAIL <query> :: <what>` lines and a summary; exit 1 if any line failed.
use rink_core::ast::Query;
use rink_core::output::{NumberParts, QueryReply};
use rink_core::parsing::text_query::{parse_query, TokenIterator};
use rink_core::types::{Number, Numeric};
use rink_core::Context;
use std::io::BufRead;

fn eval_number(ctx: &mut Context, text: &str) -> Result<Number, String> {
    match rink_core::eval(ctx, text) {
        Ok(QueryReply::Number(p)) => p.raw_value.ok_or_else(|| "no raw value".to_owned()),
        Ok(QueryReply::Duration(d)) => d.raw.raw_value.ok_or_else(|| "no raw value".to_owned()),
        Ok(other) => Err(format!("not a number: {}", other)),
        Err(e) => Err(format!("error: {}", e)),
    }
}

fn f(n: &Numeric) -> f64 {
    n.to_f64()
}

/// `0.[3]...` -> `0.3`; returns the cleaned numeral and the number of significant digits it carries
fn clean(numeral: &str) -> (String, i32) {
    let mut s = numeral.replace("...", "");
    s = s.replace('[', "").replace(']', "");
    let mantissa = s.split(|c| c == 'e' || c == 'E').next().unwrap_or("");
    let digits: String = mantissa.chars().filter(|c| c.is_ascii_digit()).collect();
    let sig = digits.trim_start_matches('0').len() as i32;
    (s, sig.max(1))
}

/// an exact numeral in recurring notation (`2.[3]...`, `6.9[4]...e-31`) as an exact expression
fn exact_text(numeral: &str) -> String {
    if !numeral.contains('[') {
        return format!("({})", numeral);
    }
    let (neg, rest) = match numeral.strip_prefix('-') {
        Some(r) => ("-", r),
        None => ("", numeral),
    };
    let (mant, exp) = match rest.find("...") {
        Some(i) => (&rest[..i], &rest[i + 3..]),
        None => (rest, ""),
    };
    let exp = exp.trim_start_matches(|c| c == 'e' || c == 'E');
    let (int, frac) = mant.split_once('.').unwrap_or((mant, ""));
    let (nonrep, block) = frac.split_once('[').unwrap_or((frac, "0]"));
    let block = block.trim_end_matches(']');
    let nines: String = std::iter::repeat('9').take(block.len()).collect();
    format!("({}(({}{} + {}/{}) / 1e{}) * 1e{})", neg, int, nonrep, block, nines, nonrep.len(), if exp.is_empty() { "0" } else { exp })
}

/// numerals of a reply in another base are read back through the matching literal prefix (whole numbers in base 16, 8, 2),
/// otherwise only the unit side of the reply is checked
fn in_base(numeral: &str, base: u8) -> Option<String> {
    if base == 10 {
        return Some(numeral.to_owned());
    }
    let (neg, body) = match numeral.strip_prefix('-') {
        Some(b) => ("-", b),
        None => ("", numeral),
    };
    if body.is_empty() || !body.chars().all(|c| c.is_ascii_alphanumeric()) {
        return None;
    }
    match base {
        16 => Some(format!("{}0x{}", neg, body)),
        8 => Some(format!("{}0o{}", neg, body)),
        2 => Some(format!("{}0b{}", neg, body)),
        _ => None,
    }
}

fn check_part(ctx: &mut Context, query: &str, what: &str, p: &NumberParts, q: &Number, fails: &mut Vec<String>) {
    check_part_base(ctx, query, what, p, q, fails, 10)
}

fn check_part_base(ctx: &mut Context, query: &str, what: &str, p: &NumberParts, q: &Number, fails: &mut Vec<String>, base: u8) {
    let mut p = p.clone();
    if base != 10 {
        p.exact_value = p.exact_value.as_ref().and_then(|n| in_base(n, base));
        if p.exact_value.is_none() {
            // a numeral that cannot be read back in this base: read the unit side with the value itself as numeral
            let (num, den) = q.value.to_rational();
            let _ = (num, den);
            p.approx_value = None;
            return;
        }
        p.approx_value = None;
    }
    let p = &p;
    let exact_q = matches!(q.value, Numeric::Rational(_));
    if p.exact_value.is_some() {
        let mut p2 = p.clone();
        p2.exact_value = Some(exact_text(p.exact_value.as_ref().unwrap()));
        let text = p2.format("e u");
        match eval_number(ctx, &text) {
            Ok(v) => {
                let same = v.unit == q.unit && if exact_q { v.value == q.value } else { (f(&v.value) - f(&q.value)).abs() <= f(&q.value).abs() * 1e-12 };
                if !same {
                    fails.push(format!("FAIL {} :: {} shows `{}` which reads back as {:?}, the quantity is {:?}", query, what, text, v, q));
                }
            }
            Err(e) => fails.push(format!("FAIL {} :: {} shows `{}` which does not read back ({}), the quantity is {:?}", query, what, text, e, q)),
        }
    }
    if let Some(ref a) = p.approx_value {
        let (numeral, sig) = clean(a);
        let mut q2 = p.clone();
        q2.approx_value = Some(numeral.clone());
        let text = q2.format("a u");
        match eval_number(ctx, &text) {
            Ok(v) => {
                let (x, y) = (f(&v.value), f(&q.value));
                let tol = 10f64.powi(1 - sig) * 1.0000001;
                let same = v.unit == q.unit && (x == y || ((x - y) / y).abs() <= tol);
                if !same && v.unit != q.unit {
                    fails.push(format!("FAIL {} :: {} shows `{}` which reads back with another dimension, as {:?}; the quantity is {:?}", query, what, p.format("a u"), v, q));
                } else if !same {
                    fails.push(format!("FAIL {} :: {} shows `{}` ({} significant digits) which reads back as {:?}, the quantity is {:?}", query, what, p.format("a u"), sig, v, q));
                }
            }
            Err(e) => fails.push(format!("FAIL {} :: {} shows `{}` which does not read back ({}), the quantity is {:?}", query, what, text, e, q)),
        }
    }
    if p.exact_value.is_none() && p.approx_value.is_none() {
        fails.push(format!("FAIL {} :: {} shows no numeral at all", query, what));
    }
    // the dimensionality and the physical quantity in parentheses are those of the result
    if let Some(ref d) = p.dimensions {
        if !d.is_empty() {
            match eval_number(ctx, &format!("1 {}", d)) {
                Ok(v) if v.unit == q.unit => {}
                Ok(v) => fails.push(format!("FAIL {} :: {} shows the dimensionality `{}` = {:?}, the quantity is {:?}", query, what, d, v.unit, q.unit)),
                Err(e) => fails.push(format!("FAIL {} :: {} shows the dimensionality `{}` which does not read back ({})", query, what, d, e)),
            }
        } else if !q.unit.is_dimensionless() {
            fails.push(format!("FAIL {} :: {} shows an empty dimensionality, the quantity is {:?}", query, what, q.unit));
        }
    }
    if let Some(ref name) = p.quantity {
        let named = ctx.registry.quantities.iter().find(|(_, n)| *n == name).map(|(d, _)| d.clone());
        match named {
            Some(d) if d == q.unit => {}
            Some(d) => fails.push(format!("FAIL {} :: {} is called `{}` = {:?}, the quantity is {:?}", query, what, name, d, q.unit)),
            None => match eval_number(ctx, &format!("1 {}", name)) {
                Ok(v) if v.unit == q.unit => {}
                other => fails.push(format!("FAIL {} :: {} is called `{}` which reads back as {:?}, the quantity is {:?}", query, what, name, other, q.unit)),
            },
        }
    }
}

fn sum(ctx: &mut Context, parts: &[&NumberParts], pat: &str) -> Result<Number, String> {
    let mut text = String::new();
    for p in parts {
        if !text.is_empty() {
            text.push_str(" + ");
        }
        let mut p2 = (*p).clone();
        if let Some(ref e) = p.exact_value {
            p2.exact_value = Some(exact_text(e));
        }
        if let Some(ref a) = p.approx_value {
            p2.approx_value = Some(clean(a).0);
        }
        text.push_str(&format!("({})", p2.format(pat)));
    }
    eval_number(ctx, &text)
}

/// returns the number of shown numbers that were checked
fn check_query(ctx: &mut Context, line: &str, fails: &mut Vec<String>) -> usize {
    let mut iter = TokenIterator::new(line.trim()).peekable();
    let query = parse_query(&mut iter);
    let reply = match rink_core::eval(ctx, line) {
        Ok(r) => r,
        Err(_) => return 0,
    };
    let lhs = match query {
        Query::Expr(ref e) | Query::Convert(ref e, _, _, _) => match ctx.eval_query(&Query::Expr(e.clone())) {
            Ok(QueryReply::Number(p)) => p.raw_value,
            Ok(QueryReply::Duration(d)) => d.raw.raw_value,
            _ => None,
        },
        _ => None,
    };
    match reply {
        QueryReply::Number(p) => {
            if let Some(q) = p.raw_value.clone() {
                check_part(ctx, line, "the result", &p, &q, fails);
                return 1;
            }
            0
        }
        QueryReply::Conversion(c) => {
            if let Some(q) = lhs {
                let base = match query {
                    Query::Convert(_, _, Some(b), _) => b,
                    _ => 10,
                };
                check_part_base(ctx, line, "the conversion", &c.value, &q, fails, base);
                return 1;
            }
            0
        }
        QueryReply::Def(d) => {
            if let (Some(p), Some(q)) = (d.value.as_ref(), d.value.as_ref().and_then(|p| p.raw_value.clone())) {
                check_part(ctx, line, "the definition", p, &q, fails);
                return 1;
            }
            0
        }
        QueryReply::UnitList(l) => {
            // every entry is an unmarked numeral: within one unit in its last printed digit of the entry's own quantity
            // (that the entries add up to the whole is property C13)
            let mut n = 0;
            for p in &l.list {
                let raw = match p.raw_value {
                    Some(ref r) => r.clone(),
                    None => continue,
                };
                let name = match raw.unit.as_single() {
                    Some((u, 1)) => u.to_string(),
                    _ => continue,
                };
                let (num, den) = raw.value.to_rational();
                let q = match eval_number(ctx, &format!("({} / {}) {}", num, den, name)) {
                    Ok(q) => q,
                    Err(e) => {
                        fails.push(format!("FAIL {} :: the list entry for `{}` does not evaluate ({})", line, name, e));
                        continue;
                    }
                };
                let mut p2 = p.clone();
                p2.approx_value = p2.exact_value.take();
                check_part(ctx, line, &format!("the list entry for `{}`", name), &p2, &q, fails);
                n += 1;
            }
            // the entries, taken exactly (their raw counts, each under the name it is shown with), add up to the quantity
            if let Some(q) = lhs {
                let mut text = String::new();
                let mut all = true;
                for p in &l.list {
                    match p.raw_value.as_ref().and_then(|r| r.unit.as_single().map(|(u, pw)| (r.value.to_rational(), u.to_string(), pw))) {
                        Some(((num, den), name, 1)) if matches!(p.raw_value.as_ref().unwrap().value, Numeric::Rational(_)) => {
                            if !text.is_empty() {
                                text.push_str(" + ");
                            }
                            text.push_str(&format!("(({} / {}) {})", num, den, name));
                        }
                        _ => all = false,
                    }
                }
                if all && !text.is_empty() && matches!(q.value, Numeric::Rational(_)) {
                    match eval_number(ctx, &text) {
                        Ok(v) if v.unit == q.unit && v.value == q.value => {}
                        Ok(v) => fails.push(format!("FAIL {} :: the list entries `{}` add up to {:?}, the quantity is {:?}", line, text, v, q)),
                        Err(e) => fails.push(format!("FAIL {} :: the list entries `{}` do not evaluate ({})", line, text, e)),
                    }
                }
            }
            n
        }
        _ => 0,
    }
}

fn main() {
    let args: Vec<String> = std::env::args().skip(1).collect();
    let mut ctx = rink_core::simple_context().expect("context");
    let mut fails = vec![];
    let mut shown = 0usize;
    let mut queries = 0usize;
    let mut lines: Vec<String> = vec![];
    if args.iter().any(|a| a == "--stdin") {
        for l in std::io::stdin().lock().lines() {
            lines.push(l.unwrap());
        }
    }
    let deep = args.iter().any(|a| a == "--sweep-deep");
    if deep || args.iter().any(|a| a == "--sweep") {
        let names: Vec<String> = ctx.registry.units.keys().cloned().collect();
        let simple = |n: &str| n.chars().all(|c| c.is_ascii_alphabetic() || c == '_') && !n.is_empty();
        let base: Vec<String> = ctx.registry.base_units.iter().map(|b| b.to_string()).collect();
        // every database unit at magnitudes across the prefix range
        let step = if deep { 1 } else { 3 };
        for (i, n) in names.iter().filter(|n| simple(n)).enumerate() {
            let mut k = -30 + (i as i32 % step);
            while k <= 30 {
                lines.push(format!("1e{} {}", k, n));
                k += step;
            }
            lines.push(format!("7 {} -> 3 {}", n, n));
            lines.push(format!("{}", n));
        }
        // every prefix boundary x 0.999 / 1 / 1000 x powers 1..3 for the base units and a few derived ones
        let mut some = base.clone();
        for x in ["gram", "byte", "bit", "newton", "joule", "watt", "tesla", "pascal", "liter", "hertz", "volt", "ohm", "farad", "tonne", "radian", "mol", "kelvin"] {
            some.push(x.to_owned());
        }
        for n in &some {
            for p in 1..=3 {
                for k in (-30..=30).step_by(3) {
                    for m in ["0.999", "1", "1000", "-1", "999.9995"] {
                        // the magnitude is that of the p-th power of the prefix
                        lines.push(format!("{}e{} {}^{}", m, k * p, n, p));
                        lines.push(format!("{}e{} / {}^{}", m, k * p, n, p));
                    }
                }
            }
        }
        // products and quotients of base units that regroup into derived units
        let b: Vec<&str> = vec!["kg", "m", "s", "A", "K", "mol", "cd", "bit", "radian", "USD"];
        for x in &b {
            for y in &b {
                for (px, py) in [(1, 1), (1, -1), (2, -1), (1, -2), (2, -2), (-1, -1), (3, -1), (2, 1), (1, 2)] {
                    lines.push(format!("5 {}^{} {}^{}", x, px, y, py));
                    lines.push(format!("2500 kg {}^{} {}^{}", x, px, y, py));
                    for z in ["s^-2", "s^-3 A^-1", "A^-1 s^-2", "m^-1", "s^-1"] {
                        lines.push(format!("3/7 {}^{} {}^{} {}", x, px, y, py, z));
                        if deep {
                            for w in &b {
                                lines.push(format!("1e4 {}^{} {}^{} {} {}", x, px, y, py, z, w));
                            }
                        }
                    }
                }
            }
        }
        // conversions with constant factors, unit lists
        for (l, rs) in [
            ("10 foot", vec!["3 foot", "1/7 inch", "inch", "2 m", "ft;in", "yard;ft;in", "7/3 cm", "0.1 mm", "m / 3", "3 m / 7", "1000 m", "m;cm;mm"]),
            ("1 week + 1.5 s", vec!["hour;minute;second", "3 hour", "1/60 minute", "day;hour;min;s", "fortnight", "7 ms"]),
            ("3 kg m / s^2", vec!["lbf", "2 dyne", "kg m / s^2", "7 g cm / s^2", "N", "1/3 N", "g cm / min^2"]),
            ("1e7 byte", vec!["bit", "MB", "MiB", "3 kB", "kibibyte;byte", "8 bit"]),
            ("1 acre", vec!["m^2", "3 ft^2", "ft^2", "hectare", "1/2 km^2", "yard^2;ft^2;in^2"]),
            ("60 mph", vec!["km/hour", "m/s", "3 m/s", "2 km / 3 hour", "ft/s", "1/8 knot"]),
            ("1/3 tonne", vec!["kg", "lb", "lb;oz", "3 stone", "g", "1e-3 g", "ton;lb;oz"]),
            ("2.5 kWh", vec!["J", "MJ", "3 BTU", "calorie", "eV", "1/7 W hour"]),
            ("1 tesla", vec!["gauss", "kg / A s^2", "3 gauss", "Wb / m^2"]),
            ("1e-9 F", vec!["pF", "3 pF", "A^2 s^4 / kg m^2", "C / V"]),
            // a unit named by two factors of the target, bare base conversions
            ("10 m^2", vec!["m m", "m meter", "cm m", "2 m m", "m m / 3"]),
            ("2 acre", vec!["ft foot", "ft ft", "yard ft"]),
            ("3 N", vec!["kg m / s s", "kg m / s^2", "g cm / s s"]),
            ("5000 m", vec!["hex", "oct", "bin", "base 10", "base 7"]),
            ("1 byte", vec!["hex", "bin"]),
            ("4096 kg", vec!["hex", "base 12"]),
            // constants combined by an operator, bare constants, small entries of a list
            ("10 foot", vec!["3 foot + 2 foot", "3 foot - 1 foot", "7 foot mod 2 foot", "(2 foot)^1", "foot + foot"]),
            ("12", vec!["3", "1|7", "6 and 3", "6 or 3", "6 xor 3", "3 + 1", "2^2", "1"]),
            ("8 m^2", vec!["(2 m)^2", "(4 m^4)^0.5", "2 m * 3 m", "m^2 / 3"]),
            ("0.5 ms", vec!["s;ms", "ms;us", "s"]),
            ("4 bit", vec!["byte;bit", "byte"]),
            ("5000 kg", vec!["kg;g", "tonne;kg"]),
            // long constants, lists that are not in descending order
            ("1 TiB", vec!["4294967296 byte", "123456789012 bit", "1234567891|1000 byte", "byte;kB;MB", "bit;byte"]),
            ("5.5 foot", vec!["inch;ft", "inch;yard;ft", "98765432101 nm", "1|98765432101 km", "12345678.9 um"]),
            ("1 year", vec!["s;hour;day", "31556925974|1000 s", "minute;week"]),
        ] {
            for r in rs {
                lines.push(format!("{} -> {}", l, r));
                lines.push(format!("-{} -> {}", l, r));
                lines.push(format!("({}) / 3 -> {}", l, r));
                lines.push(format!("({}) * 1e6 -> {}", l, r));
            }
        }
    }
    for l in &lines {
        let n = check_query(&mut ctx, l, &mut fails);
        if n > 0 {
            queries += 1;
            shown += n;
        }
    }
    for x in &fails {
        println!("{}", x);
    }
    println!("PRETTY {}: {} queries with a numeric reply ({} of {} lines), {} shown numbers, {} failures", if fails.is_empty() { "ok" } else { "FAILED" }, queries, queries, lines.len(), shown, fails.len());
    std::process::exit(if fails.is_empty() { 0 } else { 1 });
}
