// Replays query lines against the REAL rink-core (path dependency on /repo/core).
// usage: vx-replay-query [--expect <text>] [--defs <definitions>]... <line> [<line> ...]
// Each line is evaluated in one context, in order, and rendered in every
// output form (plain text, span tree, JSON). Prints the replies.
// exit 1 = a panic was caught (printed), or --expect was given and the last
// reply differs; exit 0 otherwise.
use std::panic::{catch_unwind, AssertUnwindSafe};

fn main() {
    let mut args: Vec<String> = std::env::args().skip(1).collect();
    let mut expect: Option<String> = None;
    if args.len() >= 2 && args[0] == "--expect" {
        expect = Some(args[1].clone());
        args.drain(0..2);
    }
    let mut ctx = rink_core::simple_context().expect("context");
    // --ans: enable the `ans` feature (save_previous_result)
    if !args.is_empty() && args[0] == "--ans" {
        ctx.save_previous_result = true;
        args.remove(0);
    }
    // --now <unix seconds>: the context's clock is set to this instant and left alone (eval_query instead of helpers::eval)
    let mut fixed_now: Option<i64> = None;
    if args.len() >= 2 && args[0] == "--now" {
        fixed_now = args[1].parse::<i64>().ok();
        args.drain(0..2);
    }
    // --dates "<date pattern text>": extra date patterns (core/src/parsing/datetime.rs parse_datefile)
    while args.len() >= 2 && args[0] == "--dates" {
        ctx.load_date_file(&args[1]);
        println!("load_date_file: ok");
        args.drain(0..2);
    }
    // --defs "<definitions text>": extra user definitions loaded on top of the bundled database
    while args.len() >= 2 && args[0] == "--defs" {
        let r = ctx.load_definitions(&args[1]);
        println!("load_definitions: {:?}", r.map(|_| "ok"));
        args.drain(0..2);
    }
    // --canon-sweep <stride>: every prefix x (unit or base unit name) [+ s] of the loaded database, every stride-th name:
    // the canonical name must denote the value the name denotes (C07). Prints CANON-BAD lines (first 20) and a summary.
    if args.len() >= 2 && args[0] == "--canon-sweep" {
        let stride: usize = args[1].parse().unwrap_or(1).max(1);
        let reg = &ctx.registry;
        let mut stems: Vec<String> = reg.units.keys().cloned().collect();
        stems.extend(reg.base_units.iter().map(|b| b.to_string()));
        stems.extend(reg.base_unit_long_names.keys().cloned());
        stems.extend(reg.definitions.keys().cloned());
        stems.sort();
        stems.dedup();
        let mut pres: Vec<String> = vec![String::new()];
        pres.extend(reg.prefixes.iter().map(|(p, _)| p.clone()));
        // the resolution order of the property, written out over the registry tables: exact first (base unit, then unit), then
        // the first prefix in list order whose rest is defined exactly (prefix value times unit), a plural `s` only after both
        fn oracle_exact(reg: &rink_core::loader::Registry, n: &str) -> Option<rink_core::types::Number> {
            if let Some(b) = reg.base_units.get(n) {
                return Some(rink_core::types::Number::one_unit(b.clone()));
            }
            reg.units.get(n).cloned()
        }
        fn oracle_prefixed(reg: &rink_core::loader::Registry, n: &str) -> Option<rink_core::types::Number> {
            if let Some(v) = oracle_exact(reg, n) {
                return Some(v);
            }
            for (p, pv) in reg.prefixes.iter() {
                if n.len() >= p.len() && n.is_char_boundary(p.len()) && &n[..p.len()] == p.as_str() {
                    if let Some(u) = oracle_exact(reg, &n[p.len()..]) {
                        return &u * &rink_core::types::Number::new(pv.clone());
                    }
                }
            }
            None
        }
        fn oracle(reg: &rink_core::loader::Registry, n: &str) -> Option<rink_core::types::Number> {
            match oracle_prefixed(reg, n) {
                Some(v) => Some(v),
                None => match n.char_indices().last() {
                    Some((i, 's')) => oracle_prefixed(reg, &n[..i]),
                    _ => None,
                },
            }
        }
        let (mut checked, mut nbad, mut k) = (0usize, 0usize, 0usize);
        for pre in &pres {
            for stem in &stems {
                for suffix in ["", "s"] {
                    k += 1;
                    if k % stride != 0 {
                        continue;
                    }
                    let name = format!("{}{}{}", pre, stem, suffix);
                    let r = catch_unwind(AssertUnwindSafe(|| {
                        let direct = ctx.lookup(&name);
                        let canon = ctx.canonicalize(&name);
                        let again = ctx.canonicalize(&name);
                        let via = canon.as_ref().and_then(|c| ctx.lookup(c));
                        let same_twice = canon == again && ctx.lookup(&name) == direct;
                        (direct, canon, via, same_twice)
                    }));
                    checked += 1;
                    let why = match r {
                        Err(_) => Some("panic".to_string()),
                        Ok((direct, canon, via, same_twice)) => {
                            if !same_twice {
                                Some("two calls disagree".to_string())
                            } else if direct != oracle(reg, &name) {
                                Some("lookup does not follow exact, then first prefix in list order, then plural".to_string())
                            } else if direct.is_some() && canon.is_some() && via != direct {
                                Some(format!("canonical name {:?} denotes {}", canon.unwrap(), match via { Some(_) => "another value", None => "nothing" }))
                            } else {
                                None
                            }
                        }
                    };
                    if let Some(w) = why {
                        nbad += 1;
                        if nbad <= 20 {
                            println!("CANON-BAD {} : {}", name, w);
                        }
                    }
                }
            }
        }
        println!("CANON-SWEEP checked={} bad={}", checked, nbad);
        std::process::exit(if nbad > 0 { 1 } else { 0 });
    }
    let mut bad = false;
    let mut last = String::new();
    for line in &args {
        // `:ans on` / `:ans off` toggle the feature in the middle of a history
        if line == ":ans on" || line == ":ans off" {
            ctx.save_previous_result = line == ":ans on";
            continue;
        }
        let r = catch_unwind(AssertUnwindSafe(|| {
            let res = match fixed_now {
                Some(t) => {
                    use chrono::TimeZone;
                    ctx.set_time(chrono::Utc.timestamp_opt(t, 0).unwrap().with_timezone(&chrono::Local));
                    let mut iter = rink_core::parsing::text_query::TokenIterator::new(line.trim()).peekable();
                    let q = rink_core::parsing::text_query::parse_query(&mut iter);
                    ctx.eval_query(&q)
                }
                None => rink_core::eval(&mut ctx, line),
            };
            let mut text = match &res {
                Ok(v) => format!("{}", v),
                Err(e) => format!("ERR {}", e),
            };
            // machine-readable raw value: RAW <numer>/<denom> | <dimensionality>
            if let Ok(rink_core::output::QueryReply::Number(parts)) = &res {
                if let Some(raw) = &parts.raw_value {
                    let (n, d) = match &raw.value {
                        rink_core::types::Numeric::Rational(_) => {
                            let (n, d) = raw.value.to_rational();
                            (n.to_string(), d.to_string())
                        }
                        rink_core::types::Numeric::Float(f) => (format!("float:{}", f), "1".to_string()),
                    };
                    let dims: Vec<String> = raw.unit.iter().map(|(k, v)| format!("{}:{}", k, v)).collect();
                    text.push_str(&format!("\nRAW {}/{} | {}", n, d, dims.join(",")));
                }
            }
            if let Ok(rink_core::output::QueryReply::Conversion(c)) = &res {
                if let Some(raw) = &c.value.raw_value {
                    let (n, d) = match &raw.value {
                        rink_core::types::Numeric::Rational(_) => {
                            let (n, d) = raw.value.to_rational();
                            (n.to_string(), d.to_string())
                        }
                        rink_core::types::Numeric::Float(f) => (format!("float:{}", f), "1".to_string()),
                    };
                    let dims: Vec<String> = raw.unit.iter().map(|(k, v)| format!("{}:{}", k, v)).collect();
                    text.push_str(&format!("\nRAW {}/{} | {}", n, d, dims.join(",")));
                    text.push_str(&format!("\nFACTOR {:?} DIVFACTOR {:?}", c.value.factor, c.value.divfactor));
                }
            }
            if let Err(rink_core::output::QueryError::Conformance(e)) = &res {
                text.push_str(&format!("\nSUGGESTIONS {}", e.suggestions.len()));
            }
            // unit lists / duration breakdowns: PARTS <numer>/<denom> <unit>; ...
            fn part(p: &rink_core::output::NumberParts) -> String {
                match &p.raw_value {
                    Some(raw) => match &raw.value {
                        rink_core::types::Numeric::Rational(_) => {
                            let (n, d) = raw.value.to_rational();
                            let dims: Vec<String> = raw.unit.iter().map(|(k, v)| format!("{}:{}", k, v)).collect();
                            format!("{}/{} {}", n, d, dims.join(","))
                        }
                        rink_core::types::Numeric::Float(f) => format!("float:{} ?", f),
                    },
                    None => "none ?".to_string(),
                }
            }
            if let Ok(rink_core::output::QueryReply::UnitList(l)) = &res {
                let parts: Vec<String> = l.list.iter().map(part).collect();
                text.push_str(&format!("\nPARTS {}", parts.join("; ")));
            }
            if let Ok(rink_core::output::QueryReply::Duration(d)) = &res {
                let parts: Vec<String> = [&d.years, &d.weeks, &d.days, &d.hours, &d.minutes, &d.seconds].iter().map(|p| part(p)).collect();
                text.push_str(&format!("\nPARTS {}", parts.join("; ")));
            }
            {
                let np: Option<&rink_core::output::NumberParts> = match &res {
                    Ok(rink_core::output::QueryReply::Number(p)) => Some(p),
                    Ok(rink_core::output::QueryReply::Conversion(c)) => Some(&c.value),
                    _ => None,
                };
                if let Some(p) = np {
                    text.push_str(&format!("\nNUMERAL exact={:?} approx={:?}", p.exact_value, p.approx_value));
                }
            }
            if let Ok(rink_core::output::QueryReply::UnitsFor(u)) = &res {
                let groups: Vec<String> = u.units.iter().map(|g| format!("{}={}", g.category.clone().unwrap_or_else(|| "-".to_string()), g.units.join(","))).collect();
                let dims: Vec<String> = match &u.of.raw_value { Some(raw) => raw.unit.iter().map(|(k, v)| format!("{}:{}", k, v)).collect(), None => vec![] };
                text.push_str(&format!("\nUNITSFOR {} | {}", groups.join(";"), dims.join(",")));
            }
            if let Ok(rink_core::output::QueryReply::Factorize(f)) = &res {
                let fs: Vec<String> = f.factorizations.iter().map(|x| x.units.iter().map(|(n, c)| format!("{}^{}", n, c)).collect::<Vec<_>>().join("*")).collect();
                text.push_str(&format!("\nFACTORIZE {}", fs.join(";")));
            }
            // span tree and JSON renderings
            use rink_core::output::fmt::TokenFmt;
            match &res {
                Ok(v) => {
                    let _ = v.to_spans();
                    let _ = serde_json::to_string(v).map_err(|e| e.to_string());
                }
                Err(e) => {
                    let _ = e.to_spans();
                    let _ = serde_json::to_string(e).map_err(|e| e.to_string());
                }
            }
            text
        }));
        match r {
            Ok(t) => {
                println!("> {}\n{}", line, t);
                last = t;
            }
            Err(p) => {
                let msg = p.downcast_ref::<String>().cloned().or_else(|| p.downcast_ref::<&str>().map(|s| s.to_string())).unwrap_or_default();
                println!("> {}\nPANIC {}", line, msg);
                bad = true;
                last = format!("PANIC {}", msg);
            }
        }
    }
    if let Some(e) = expect {
        if last != e {
            println!("EXPECTED {}\nGOT      {}", e, last);
            bad = true;
        }
    }
    std::process::exit(if bad { 1 } else { 0 });
}
