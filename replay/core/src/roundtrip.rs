// Bounded round-trip exploration against the REAL rink-core (path dependency on /repo/core):
// every expression tree up to depth 3 over a small alphabet (11 binary operators in either position,
// unary + and -, the six degree suffixes, juxtapositions of 2 and 3 factors, `of`, one- and two-argument
// functions; leaves a b c d 2 3 4) that the parser can produce from fully parenthesised text is printed
// with Display and with ExprReply::from, re-parsed, and compared with the tree. Prints the first tree
// that does not come back and exits 1; exits 0 when all do.
use rink_core::ast::{BinOpType, Degree, Expr, Function, UnaryOpType};
use rink_core::output::ExprReply;
use rink_core::parsing::text_query::{parse_expr, Token, TokenIterator};

fn parse(s: &str) -> Result<Expr, String> {
    let mut iter = TokenIterator::new(s).peekable();
    let e = parse_expr(&mut iter);
    match iter.next() {
        Some(Token::Eof) => Ok(e),
        other => Err(format!("trailing token {:?}", other)),
    }
}

fn parts_to_text(parts: &serde_json::Value) -> String {
    let mut out = vec![];
    for p in parts.as_array().unwrap() {
        match p["type"].as_str().unwrap() {
            "literal" => out.push(p["text"].as_str().unwrap().to_owned()),
            "unit" => out.push(p["name"].as_str().unwrap().to_owned()),
            "property" => out.push(format!("{} of {}", p["property"].as_str().unwrap(), parts_to_text(&p["subject"]))),
            "error" => out.push(format!("<error: {}>", p["message"].as_str().unwrap())),
            x => panic!("unknown part {}", x),
        }
    }
    out.join(" ")
}

fn reply_text(e: &Expr) -> String {
    let v = serde_json::to_value(&ExprReply::from(e)).unwrap();
    parts_to_text(&v["exprs"])
}

fn full(e: &Expr) -> String {
    match e {
        Expr::Unit { name } => name.clone(),
        Expr::Const { .. } => format!("{}", e),
        Expr::BinOp(b) => format!("(({}){}({}))", full(&b.left), op_text(b.op), full(&b.right)),
        Expr::UnaryOp(u) => match u.op {
            UnaryOpType::Negative => format!("(-({}))", full(&u.expr)),
            UnaryOpType::Positive => format!("(+({}))", full(&u.expr)),
            UnaryOpType::Degree(d) => format!("(({}) {})", full(&u.expr), deg_text(d)),
        },
        Expr::Mul { exprs } => format!("({})", exprs.iter().map(|x| format!("({})", full(x))).collect::<Vec<_>>().join(" ")),
        Expr::Of { property, expr } => format!("({} of ({}))", property, full(expr)),
        Expr::Call { func, args } => format!("{}({})", fn_text(func), args.iter().map(full).collect::<Vec<_>>().join(", ")),
        _ => panic!(),
    }
}

// the source spelling of every symbol, independent of the printers under test
fn op_text(op: BinOpType) -> &'static str {
    match op {
        BinOpType::Add => " + ", BinOpType::Sub => " - ", BinOpType::Frac => " / ", BinOpType::Pow => "^", BinOpType::Equals => " = ",
        BinOpType::ShiftL => " << ", BinOpType::ShiftR => " >> ", BinOpType::Mod => " mod ", BinOpType::And => " and ",
        BinOpType::Or => " or ", BinOpType::Xor => " xor ",
    }
}

fn deg_text(d: Degree) -> &'static str {
    match d {
        Degree::Celsius => "°C", Degree::Fahrenheit => "°F", Degree::Reaumur => "°Ré", Degree::Romer => "°Rø",
        Degree::Delisle => "°De", Degree::Newton => "°N",
    }
}

fn fn_text(f: &Function) -> &'static str {
    match f {
        Function::Sin => "sin", Function::Atan2 => "atan2", _ => panic!(),
    }
}

const OPS: [BinOpType; 11] = [BinOpType::Add, BinOpType::Sub, BinOpType::Frac, BinOpType::Pow, BinOpType::Equals, BinOpType::ShiftL,
    BinOpType::ShiftR, BinOpType::Mod, BinOpType::And, BinOpType::Or, BinOpType::Xor];
const DEGS: [Degree; 6] = [Degree::Celsius, Degree::Fahrenheit, Degree::Reaumur, Degree::Romer, Degree::Delisle, Degree::Newton];

fn u(s: &str) -> Expr {
    Expr::new_unit(s.to_owned())
}

fn level(children: &[Expr], leaf1: Expr, leaf2: Expr, all_degrees: bool) -> Vec<Expr> {
    let mut out = vec![];
    for x in children {
        for op in OPS.iter() {
            out.push(Expr::new_bin(*op, x.clone(), leaf1.clone()));
            out.push(Expr::new_bin(*op, leaf1.clone(), x.clone()));
        }
        out.push(Expr::new_negate(x.clone()));
        out.push(Expr::new_plus(x.clone()));
        for d in DEGS.iter().take(if all_degrees { 6 } else { 1 }) {
            out.push(Expr::new_suffix(*d, x.clone()));
        }
        out.push(Expr::Mul { exprs: vec![x.clone(), leaf1.clone()] });
        out.push(Expr::Mul { exprs: vec![leaf1.clone(), x.clone()] });
        out.push(Expr::Mul { exprs: vec![leaf1.clone(), x.clone(), leaf2.clone()] });
        out.push(Expr::new_of("foo", x.clone()));
        out.push(Expr::new_call(Function::Sin, vec![x.clone()]));
        out.push(Expr::new_call(Function::Atan2, vec![leaf1.clone(), x.clone()]));
    }
    out
}

fn main() {
    let deep = std::env::args().any(|a| a == "--deep");
    let leaves = vec![u("a")];
    let d1 = level(&leaves, u("b"), Expr::from(2), true);
    let d2 = level(&d1, u("c"), Expr::from(3), true);
    let mut all = vec![];
    all.extend(leaves);
    all.extend(d1.clone());
    all.extend(d2.clone());
    if deep {
        all.extend(level(&d2, u("d"), Expr::from(4), false));
    }
    let mut n = 0;
    for e in &all {
        let input = full(e);
        match parse(&input) {
            Ok(ref p) if p == e => {}
            _ => continue,
        }
        n += 1;
        let d = e.to_string();
        let r = reply_text(e);
        let pd = parse(&d);
        let pr = parse(&r);
        let okd = pd.as_ref().ok() == Some(e);
        let okr = pr.as_ref().ok() == Some(e);
        if !okd || !okr {
            println!("FAIL display_ok={} reply_ok={} input `{}` printed `{}` reply `{}` reparsed `{}`", okd, okr, input, d, r,
                match if okd { pr } else { pd } { Ok(x) => full(&x), Err(m) => m });
            std::process::exit(1);
        }
    }
    println!("ROUNDTRIP ok: {} producible trees", n);
}
