// Replays one step of the sandbox allocator on the REAL code
// (/repo/sandbox/src/alloc.rs, textually included) with the real System
// parent allocator, and evaluates the step contract of C19 on the outcome.
//
// usage: vx-replay-alloc <op> <used> <max> <limit> <size|old> <align> <new>
// exit 1 = a clause of the contract is violated (printed), 0 = contract holds,
// 3 = not replayable (sizes too large for a real allocation).
#![allow(dead_code)]
mod alloc_real {
    include!(concat!(env!("VX_REPO"), "/sandbox/src/alloc.rs"));

    pub fn step(op: &str, used: usize, max: usize, limit: usize, size: usize, align: usize, new: usize) -> i32 {
        use std::sync::atomic::Ordering::SeqCst;
        if size > (1 << 28) || new > (1 << 28) || size == 0 {
            println!("not replayable: size {} / {} needs a real block", size, new);
            return 3;
        }
        let a = Alloc { parent: System, used: AtomicUsize::new(used), max: AtomicUsize::new(max), limit: AtomicUsize::new(limit) };
        let layout = match Layout::from_size_align(size, align) {
            Ok(l) => l,
            Err(_) => return 3,
        };
        let mut bad: Vec<String> = vec![];
        let (u1, m1, ok);
        unsafe {
            match op {
                "alloc" | "alloc_zeroed" => {
                    let p = if op == "alloc" { a.alloc(layout) } else { a.alloc_zeroed(layout) };
                    u1 = a.used.load(SeqCst);
                    m1 = a.max.load(SeqCst);
                    ok = !p.is_null();
                    if ok {
                        if u1 != used + size { bad.push(format!("success_charges_exactly_size: used' = {} != {} + {}", u1, used, size)); }
                        if u1 > limit { bad.push(format!("success_only_within_limit: used' = {} > limit {}", u1, limit)); }
                        System.dealloc(p, layout);
                    } else if u1 != used {
                        bad.push(format!("refusal_leaves_usage_unchanged: used' = {} != {}", u1, used));
                    }
                }
                "dealloc" => {
                    let p = System.alloc(layout);
                    if p.is_null() { return 3; }
                    a.dealloc(p, layout);
                    u1 = a.used.load(SeqCst);
                    m1 = a.max.load(SeqCst);
                    ok = true;
                    if u1 != used.wrapping_sub(size) { bad.push(format!("free_refunds_exactly_size: used' = {} != {} - {}", u1, used, size)); }
                }
                "realloc" => {
                    if new == 0 { return 3; }
                    let p = System.alloc(layout);
                    if p.is_null() { return 3; }
                    let q = a.realloc(p, layout, new);
                    u1 = a.used.load(SeqCst);
                    m1 = a.max.load(SeqCst);
                    ok = !q.is_null();
                    if ok {
                        if u1 != used - size + new { bad.push(format!("success_charges_new_minus_old: used' = {} != {} - {} + {}", u1, used, size, new)); }
                        if u1 > limit { bad.push(format!("success_only_within_limit: used' = {} > limit {}", u1, limit)); }
                        System.dealloc(q, Layout::from_size_align(new, align).unwrap());
                    } else {
                        if u1 != used { bad.push(format!("refusal_leaves_usage_unchanged: used' = {} != {}", u1, used)); }
                        // the old block must still be usable
                        std::ptr::write_volatile(p, 0x5a);
                        System.dealloc(p, layout);
                    }
                }
                _ => return 64,
            }
        }
        if m1 < max { bad.push(format!("peak_is_monotone: max' = {} < max {}", m1, max)); }
        if m1 < u1 { bad.push(format!("peak_covers_usage: max' = {} < used' = {}", m1, u1)); }
        println!("op={} used={} max={} limit={} size={} align={} new={} -> success={} used'={} max'={}", op, used, max, limit, size, align, new, ok, u1, m1);
        if bad.is_empty() {
            println!("contract holds for this input");
            0
        } else {
            for b in &bad { println!("VIOLATED {}", b); }
            1
        }
    }
}

fn main() {
    let a: Vec<String> = std::env::args().collect();
    if a.len() != 8 {
        eprintln!("usage: vx-replay-alloc <op> <used> <max> <limit> <size|old> <align> <new>");
        std::process::exit(64);
    }
    let n = |i: usize| a[i].parse::<usize>().expect("number");
    std::process::exit(alloc_real::step(&a[1], n(2), n(3), n(4), n(5), n(6), n(7)));
}
