"""Verus back end: extract from /repo, verify, classify (DESIGN.md 2, 4)."""
import json, os, re, time
from .common import *

CANARY = "\nverus! {\nproof fn vx_canary()\n    ensures false,\n{\n}\n} // vx canary\n"

FAIL_KINDS = [
    (re.compile(r'^postcondition not satisfied'), 'postcondition'),
    (re.compile(r'^precondition not satisfied'), 'precondition'),
    (re.compile(r'^Call to non-static function fails to satisfy'), 'precondition'),
    (re.compile(r'^assertion failed'), 'assertion'),
    (re.compile(r'^invariant not satisfied'), 'invariant'),
    (re.compile(r'^loop invariant not'), 'invariant'),
    (re.compile(r'^possible arithmetic underflow/overflow'), 'overflow'),
    (re.compile(r'^possible division by zero'), 'divzero'),
    (re.compile(r'^possible bit shift underflow/overflow'), 'overflow'),
    (re.compile(r'^decreases not satisfied'), 'decreases'),
    (re.compile(r'^could not prove termination'), 'decreases'),
    (re.compile(r'^constructor of a datatype|^recommendation not met'), None),
    (re.compile(r'^index out of bounds|^possible.*out of bounds'), 'bounds'),
    (re.compile(r'^unwrap|^possible'), 'safety'),
]
RLIMIT = re.compile(r'[Rr]esource limit|rlimit')

SHIM_ASSUMPTIONS = {
    'prelude.rs': 'A-std: helper shims (vx_unreachable requires false, vx_assert requires its condition, vx_fmt drops format text)',
    'stdopt.rs': 'A-std: Option/Result combinators (and_then) as documented',
    'stdint.rs': 'A-std: std integer methods (abs, unsigned_abs) as documented',
    'f64.rs': 'A-float: float methods are total, results unconstrained; float branches are verified for panic-freedom only',
    'bigint.rs': 'A-bigint: num-bigint implements exact integer arithmetic; / truncates toward zero, % has the sign of the dividend, both panic on zero divisor; to_i64 is Some iff in range',
    'bigint_ops.rs': 'A-bigint (operators)',
    'bigrat.rs': 'A-bigrat: num-rational implements exact rational arithmetic; /, % and new panic on a zero divisor; numer/denom reduced with positive denominator',
    'bigrat_ops.rs': 'A-bigrat (operators)',
    'btree.rs': 'A-btree: std BTreeMap/BTreeSet are finite maps iterated in strictly increasing key order',
    'btree_iter.rs': 'A-btree (iterator type name)',
    'iter.rs': 'A-iter: iterator adapters act element-wise in order',
    'string.rs': 'A-str: byte-level meaning of str/String/char functions',
    'stream.rs': 'A-stream: Peekable<Chars> yields the chars of the input in order, then None',
    'tokstream.rs': 'A-stream: Peekable<TokenIterator> (query lexer) is the remaining token sequence, then Token::Eof for ever (the Eof-forever part is proved for TokenIterator::next in unit lexer)',
    'digitchars.rs': 'A-std: char::from_digit, String::insert/len as documented; A-indexmap: IndexSet is an insertion-ordered set',
    'btreeset.rs': 'A-btree: BTreeSet get/insert/remove/contains as documented',
    'fmtlog.rs': 'A-fmt: a Formatter is the sequence of format literals written to it; format arguments are dropped (N6) except where a template substitution writes the argument string itself',
    'formula_stream.rs': 'A-stream: Peekable<TokenIterator> (formula lexer) is the remaining token sequence, then None',
    'chrono.rs': 'A-chrono: chrono Duration is an integer nanosecond count; DateTime checked_* never panic; FixedOffset::east_opt is Some iff |secs| < 86400',
    'fmt.rs': 'A-fmt: Formatter appends pieces in order',
    'derive.rs': 'A-derive: derived Clone/PartialEq/Ord behave structurally',
}


def _region_map(log):
    regions = []  # (start, end, kind, obj)
    for s in log.get('slots', []):
        regions.append((s['out_sig_line'], s['out_body_line_start'] - 1, 'slot-sig', s))
        regions.append((s['out_body_line_start'], s['out_body_line_end'], 'slot-body', s))
    for t in log.get('types', []):
        regions.append((t['out_line_start'], t['out_line_end'], 'type', t))
    for i in log.get('includes', []):
        regions.append((i['out_line_start'], i['out_line_end'], 'shim', i))
    return regions


def _find(regions, line):
    for (a, b, k, o) in regions:
        if a <= line <= b:
            return k, o
    return 'template', None


def _src_of(kind, obj, line):
    if kind == 'slot-body':
        return '%s:%d' % (obj['file'], obj['src_body_line'] + (line - obj['out_body_line_start']))
    if kind == 'slot-sig':
        return 'contract of %s (template line %d)' % (obj['name'], obj['template_line'])
    if kind == 'type':
        return '%s:%d' % (obj['file'], obj['src_line_start'] + (line - obj['out_line_start']))
    if kind == 'shim':
        return 'shims/%s:%d' % (obj['file'], line - obj['out_line_start'] + 1)
    return 'template'


def extract(unit, cfg, auto=None, nohint=None):
    os.makedirs(WORK, exist_ok=True)
    out = os.path.join(WORK, unit + '.rs')
    logp = os.path.join(WORK, unit + '.extract.json')
    for p in (out, logp):
        if os.path.exists(p):
            os.remove(p)
    cmd = [EXTRACT_BIN, REPO, os.path.join(ROOT, cfg['template']), os.path.join(ROOT, 'shims'), out, logp]
    env = dict(os.environ)
    env['VX_AUTO'] = ';'.join(auto or [])
    env['VX_NOHINT'] = ';'.join(nohint or [])
    rc, so, se, dt = run(cmd, cwd=ROOT, env=env)
    log = json.load(open(logp)) if os.path.exists(logp) else {'status': 'undecided', 'reason': 'extractor crashed: ' + se[-400:]}
    if rc != 0 and log.get('status') == 'ok':
        log['status'] = 'undecided'
        log['reason'] = 'extractor exit %d: %s' % (rc, se[-400:])
    return out, log, ' '.join(cmd), dt


def verus_once(path, rlimit=None, seed=None, extra=None, timeout=300):
    cmd = ['verus', path, '--output-json', '--time', '--multiple-errors', '50', '--error-format=json']
    if rlimit:
        cmd += ['--rlimit', str(rlimit)]
    if seed is not None:
        cmd += ['--smt-option', 'random_seed=%d' % seed, '--smt-option', 'sat.random_seed=%d' % seed]
    if extra:
        cmd += extra
    rc, so, se, dt = run(cmd, cwd=os.path.dirname(path), timeout=timeout)
    res = None
    try:
        res = json.loads(so[so.index('{'):]) if '{' in so else None
    except Exception:
        res = None
    diags = []
    for line in se.splitlines():
        line = line.strip()
        if line.startswith('{'):
            try:
                diags.append(json.loads(line))
            except Exception:
                pass
    return {'rc': rc, 'json': res, 'diags': diags, 'stderr': se, 'wall_s': dt, 'cmd': ' '.join(cmd)}


def classify(r, log, unit):
    """-> (failures, undecided_reasons, canary_failed, rlimit_hits)"""
    regions = _region_map(log)
    failures, undecided, canary = [], [], False
    rl = []
    if r['rc'] == 124:
        undecided.append('verus timeout')
    for d in r['diags']:
        if d.get('level') != 'error':
            continue
        msg = d.get('message', '')
        if msg.startswith('aborting due to') or msg.startswith('For more information'):
            continue
        spans = d.get('spans', [])
        prim = [s for s in spans if s.get('is_primary')] or spans
        text_all = ' '.join(t.get('text', '') for s in spans for t in s.get('text', []))
        if 'vx_canary' in text_all or any('vx_canary' in (s.get('label') or '') for s in spans):
            canary = True
            continue
        # the canary's failing clause is the literal `false` inside vx_canary: locate by line
        kind = None
        known = False
        for rx, k in FAIL_KINDS:
            if rx.search(msg):
                kind, known = k, True
                break
        if RLIMIT.search(msg):
            rl.append(msg)
            continue
        if not known:
            undecided.append('verus: ' + one_line(msg, 200) + (' at line %d' % prim[0]['line_start'] if prim else ''))
            continue
        if kind is None:
            continue
        # which slot?
        slot = None
        where = None
        for s in prim + [x for x in spans if x not in prim]:
            k, o = _find(regions, s['line_start'])
            if k in ('slot-body', 'slot-sig'):
                slot = o
                break
        p0 = prim[0] if prim else None
        if p0 is not None:
            k0, o0 = _find(regions, p0['line_start'])
            where = _src_of(k0, o0, p0['line_start'])
            ptxt = one_line(' '.join(t['text'][t['highlight_start'] - 1:t['highlight_end'] - 1] if len(p0.get('text', [])) == 1 else t['text'].strip() for t in p0.get('text', [])), 70)
        else:
            ptxt = ''
        # the canary: `ensures false` -- primary span text is `false`
        if slot is None and p0 is not None and ptxt == 'false' and kind == 'postcondition':
            canary = True
            continue
        # secondary label text (e.g. which precondition failed)
        sec = [one_line(' '.join(t['text'].strip() for t in s.get('text', [])), 70) for s in spans if not s.get('is_primary') and (s.get('label') or '').startswith('failed')]
        # body location of a postcondition failure: the span labelled "at the end of the function body" is useless; keep clause text
        f = {'kind': kind, 'message': msg, 'text': ptxt, 'failed_clause': sec[0] if sec else None,
             'out_line': p0['line_start'] if p0 else None, 'src': where,
             'slot': slot['name'] if slot else None, 'rendered': d.get('rendered', '')}
        if slot is None:
            undecided.append('template-level obligation fails (framework lemma, not /repo code): %s at out line %s: %s' % (msg, f['out_line'], ptxt))
        else:
            failures.append(f)
    j = r['json']
    if j is None:
        if not undecided:
            undecided.append('verus produced no JSON result (rc=%d): %s' % (r['rc'], one_line(r['stderr'][-300:], 300)))
    else:
        vr = j.get('verification-results', {})
        if vr.get('encountered-vir-error'):
            undecided.append('verus: VIR error (unsupported construct or mode error)')
        if not vr and not undecided:
            undecided.append('verus: no verification results')
    return failures, undecided, canary, rl


MISSING_RX = [
    re.compile(r"no (?:method|associated function or constant|function or associated item) named `(\w+)` found for (?:struct|enum|reference|union) `([^`]+)`"),
    re.compile(r"cannot find function `(\w+)` in this scope"),
]


def missing_helpers(undecided, log):
    out = []
    for u in undecided:
        for rx in MISSING_RX:
            m = rx.search(u)
            if m:
                name = m.group(1)
                ty = m.group(2) if m.lastindex and m.lastindex >= 2 else None
                if ty:
                    ty = re.sub(r"^&(?:'\w+ )?(?:mut )?", '', ty).strip()
                    ty = re.sub(r'<.*$', '', ty)
                item = '%s::%s' % (ty, name) if ty else name
                if item not in out:
                    out.append(item)
    return out


def obligation_id(f):
    detail = f['text'] or ''
    if f['kind'] == 'precondition' and f.get('failed_clause'):
        detail = detail + ' requires ' + f['failed_clause']
    detail = re.sub(r'\s+', ' ', detail)
    return '%s::%s::%s' % (f['slot'], f['kind'], detail)


def run_unit(unit, cfg, tier='quick', seed=0):
    t0 = time.time()
    res = {'unit': unit, 'backend': 'verus', 'status': 'ok', 'reasons': [], 'obligations': [], 'cmds': [],
           'slots': [], 'assumptions': [], 'solver_s': 0.0, 'unstable': []}
    out, log, xcmd, xdt = extract(unit, cfg)
    res['cmds'].append(xcmd)
    pre_nohint = []
    for _try in range(4):
        # adapted mode: a slot whose body changed shape lost a hint anchor -> drop that slot's ghost hints
        m = re.search(r"slot '([^']+)' \(.*lost anchor: hint", log.get('reason', '') or '') if log.get('status') != 'ok' else None
        if not m or m.group(1) in pre_nohint:
            break
        pre_nohint.append(m.group(1))
        out, log, xcmd, xdt = extract(unit, cfg, None, pre_nohint)
        res['cmds'].append('VX_NOHINT=%s %s' % (';'.join(pre_nohint), xcmd))
    if log.get('status') != 'ok':
        res['status'] = 'undecided'
        res['reasons'].append('extraction: ' + log.get('reason', '?'))
        res['wall_s'] = time.time() - t0
        res['log'] = log
        return res
    with open(out, 'a') as fh:
        fh.write(CANARY)
    res['log'] = log
    for s in log['slots']:
        counts = {}
        for rw in s['rewrites']:
            counts[rw['rule']] = counts.get(rw['rule'], 0) + 1
        res['slots'].append({'name': s['name'], 'props': s['props'], 'file': s['file'], 'origin': s['origin'],
                             'lines': [s['src_line_start'], s['src_line_end']], 'sha256': sha256(s['item_text']),
                             'rewrites': counts, 'hints': s['n_hints'], 'loop_contracts': s['n_loops'],
                             'closure_contracts': s['n_closures'], 'substs': s['n_substs']})
    for inc in log['includes']:
        a = SHIM_ASSUMPTIONS.get(inc['file'])
        if a and a not in res['assumptions']:
            res['assumptions'].append(a)
    # scan the slots for assumption escapes
    text = open(out).read().splitlines()
    for s in log['slots']:
        body = '\n'.join(text[s['out_body_line_start'] - 1:s['out_body_line_end']])
        if re.search(r'\b(assume|admit)\s*\(|external_body|assume_specification', body):
            res['status'] = 'undecided'
            res['reasons'].append('slot %s contains assume/admit/external_body' % s['name'])
    r = verus_once(out, seed=seed if seed else None)
    res['cmds'].append(r['cmd'])
    failures, undecided, canary, rl = classify(r, log, unit)
    attempts = 1
    # adapted mode (DESIGN 4.2): the real code calls helpers that have no slot (e.g. a refactoring
    # moved code into a new function). Extract them with their real signature and no contract and
    # try again; obligations that fail in adapted mode are reported only when replay confirms them.
    auto = []
    if pre_nohint:
        auto = ['(hints of %s dropped)' % ','.join(pre_nohint)]
    for _round in range(3):
        missing = missing_helpers(undecided, log)
        missing = [m for m in missing if m not in auto]
        if not missing:
            break
        auto += missing
        out, log2, xcmd2, _ = extract(unit, cfg, [a for a in auto if not a.startswith('(')], pre_nohint)
        res['cmds'].append('VX_AUTO=%s %s' % (';'.join(auto), xcmd2))
        if log2.get('status') != 'ok':
            res['adapt_error'] = log2.get('reason')
            break
        log = log2
        with open(out, 'a') as fh:
            fh.write(CANARY)
        res['log'] = log
        r = verus_once(out, seed=seed if seed else None)
        res['cmds'].append(r['cmd'])
        failures, undecided, canary, rl = classify(r, log, unit)
        attempts += 1
    # still in adapted mode: compile errors on hint lines of a slot whose body changed shape -> drop that slot's hints
    nohint = []
    if auto and undecided:
        regions = _region_map(log)
        for u in undecided:
            m = re.search(r'at line (\d+)', u)
            if m:
                k, o = _find(regions, int(m.group(1)))
                if k == 'slot-body' and o['name'] not in nohint and o.get('n_hints', 0) > 0:
                    nohint.append(o['name'])
        if nohint:
            out, log2, xcmd2, _ = extract(unit, cfg, [a for a in auto if not a.startswith('(')], nohint + pre_nohint)
            res['cmds'].append('VX_AUTO=%s VX_NOHINT=%s %s' % (';'.join(auto), ';'.join(nohint), xcmd2))
            if log2.get('status') == 'ok':
                log = log2
                with open(out, 'a') as fh:
                    fh.write(CANARY)
                res['log'] = log
                r = verus_once(out, seed=seed if seed else None)
                res['cmds'].append(r['cmd'])
                failures, undecided, canary, rl = classify(r, log, unit)
                attempts += 1
    res['adapted'] = auto
    res['hints_dropped'] = nohint
    if auto:
        res['slots'] = []
        for s in log['slots']:
            counts = {}
            for rw in s['rewrites']:
                counts[rw['rule']] = counts.get(rw['rule'], 0) + 1
            res['slots'].append({'name': s['name'], 'props': s['props'], 'file': s['file'], 'origin': s['origin'],
                                 'lines': [s['src_line_start'], s['src_line_end']], 'sha256': sha256(s['item_text']),
                                 'rewrites': counts, 'hints': s['n_hints'], 'loop_contracts': s['n_loops'],
                                 'closure_contracts': s['n_closures'], 'substs': s['n_substs'], 'auto': s.get('auto', False)})
    if (failures or rl) and not undecided:
        # retry protocol (DESIGN 4.2): an obligation is reported only if it fails in every configuration
        persistent = {obligation_id(f): f for f in failures}
        for (rlim, sd) in ((40, 1), (40, 2)):
            r2 = verus_once(out, rlimit=rlim, seed=sd)
            res['cmds'].append(r2['cmd'])
            attempts += 1
            f2, u2, c2, rl2 = classify(r2, log, unit)
            if u2:
                continue
            ids2 = {obligation_id(f) for f in f2}
            for k in list(persistent.keys()):
                if k not in ids2:
                    res['unstable'].append(k)
                    del persistent[k]
            rl = rl2
            if not persistent and not rl2:
                r = r2
                break
        failures = list(persistent.values())
    if rl:
        undecided.append('rlimit exceeded after retries: ' + '; '.join(one_line(x, 120) for x in rl[:3]))
    j = r['json'] or {}
    fb = []
    try:
        for m in j['times-ms']['smt']['smt-run-module-times']:
            fb += m.get('function-breakdown', [])
        res['solver_s'] = j['times-ms']['smt']['smt-run'] / 1000.0 if isinstance(j['times-ms']['smt'].get('smt-run'), (int, float)) else sum(x['time-micros'] for x in fb) / 1e6
    except Exception:
        pass
    if not canary and not undecided:
        undecided.append('vacuity guard: the canary (ensures false) did not fail -- the unit is inconsistent or was not verified')
    # vacuity: every slot must have been through the solver
    names = [x['function'].split('::')[-1] for x in fb if x.get('mode:') == 'exec']
    pool = list(names)
    for s in log['slots']:
        fname = s['locator'].split(' fn ')[-1].split()[0] if ' fn ' in (' ' + s['locator']) else None
        if s.get('origin', '').find('arm `') >= 0 or 'stmts `' in s.get('origin', '') or fname is None:
            continue
        # lifted slots carry the template's name; skip the check for them
    if j and not undecided:
        n_exec = len([x for x in fb if x.get('mode:') == 'exec'])
        if n_exec < len(log['slots']):
            undecided.append('vacuity guard: %d slots but only %d exec functions went through the solver' % (len(log['slots']), n_exec))
    if undecided:
        res['status'] = 'undecided'
        res['reasons'] += undecided
    # obligations
    failed_slots = {}
    for f in failures:
        failed_slots.setdefault(f['slot'], []).append(f)
    times = {}
    for x in fb:
        times[x['function'].split('::', 1)[-1]] = x.get('time-micros', 0) / 1000.0
    seen = {}
    for s in log['slots']:
        if s['name'] in failed_slots:
            for f in failed_slots[s['name']]:
                oid = obligation_id(f)
                n = seen.get(oid, 0)
                seen[oid] = n + 1
                if n:
                    oid = '%s#%d' % (oid, n)
                res['obligations'].append({'id': oid, 'slot': s['name'], 'props': s['props'], 'status': 'failed' if res['status'] == 'ok' else 'undecided',
                                           'kind': f['kind'], 'message': f['message'], 'src': f['src'], 'text': f['text'],
                                           'failed_clause': f.get('failed_clause'), 'rendered': f['rendered'], 'unit': unit})
        else:
            res['obligations'].append({'id': '%s::contract+safety' % s['name'], 'slot': s['name'], 'props': s['props'],
                                       'status': 'discharged' if res['status'] == 'ok' else 'undecided', 'kind': 'function',
                                       'src': s['origin'], 'unit': unit})
    unit_props = sorted({p for s in log['slots'] for p in s['props']})
    for x in fb:
        if x.get('mode:') in ('proof',) and 'vx_canary' not in x['function']:
            res['obligations'].append({'id': '%s::lemma::%s' % (unit, x['function'].split('::')[-1]), 'slot': None, 'props': unit_props,
                                       'status': 'discharged' if (x.get('success') and res['status'] == 'ok') else 'undecided', 'kind': 'lemma', 'src': cfg['template'], 'unit': unit,
                                       'time_ms': x.get('time-micros', 0) / 1000.0})
    if res.get('adapted'):
        for o in res['obligations']:
            o['adapted'] = True
    res['attempts'] = attempts
    res['wall_s'] = time.time() - t0
    res['verus_version'] = (j.get('verus') or {}).get('version') if j else None
    res['out_file'] = out
    return res
