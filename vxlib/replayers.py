"""Witness search / replay against the real code. Never decides anything: it only
turns a failed obligation into a concrete failing input when one is easy to find."""
import os, json
from .common import *

ALLOC_DIR = os.path.join(ROOT, 'replay', 'alloc')
ALLOC_BIN = os.path.join(WORK, 'replay-alloc-target', 'release', 'vx-replay-alloc')


def build_all():
    rc, so, se, dt = run(['cargo', 'build', '--release', '--offline'], cwd=ALLOC_DIR,
                         env=env_offline({'CARGO_TARGET_DIR': os.path.join(WORK, 'replay-alloc-target')}), timeout=900)
    if rc != 0:
        print('replay/alloc build failed:\n' + se[-800:])
    return rc


def _alloc_try(op, used, mx, limit, size, align, new):
    # always rebuild: the binary includes /repo's current alloc.rs
    build_all()
    rc, so, se, dt = run([ALLOC_BIN, op] + [str(x) for x in (used, mx, limit, size, align, new)], timeout=60)
    return rc, so


def _alloc_witness(o):
    h = o['slot'] or ''
    op = 'realloc' if 'realloc' in h else 'dealloc' if 'dealloc' in h else 'alloc_zeroed' if 'zeroed' in h else 'alloc' if 'alloc' in h else None
    if op is None or 'schedule' in h or 'admin' in h:
        return None
    cands = []
    ce = o.get('counterexample') or []
    if len(ce) >= 5:
        used, mx, limit, size, align = ce[0:5]
        new = ce[5] if op == 'realloc' and len(ce) >= 6 else 0
        cands.append((used, mx, limit, size, align, new))
        # same state, feasible sizes
        for (s, n) in ((16, 4096), (4096, 16), (64, 64), (1, 1)):
            cands.append((used, mx, limit, s, 8, n))
    for (used, mx, limit) in ((100, 100, 1 << 20), (0, 0, 1 << 20), (100, 100, 100), (1 << 19, 1 << 19, 1 << 20), (16, 16, (1 << 64) - 1)):
        for (s, n) in ((16, 4096), (4096, 16), (64, 64), (16, 1 << 21)):
            if op in ('dealloc', 'realloc') and s > used:
                continue
            cands.append((used, mx, limit, s, 8, n))
    check = o.get('check')
    for c in cands:
        if op in ('dealloc', 'realloc') and c[3] > c[0]:
            continue
        rc, so = _alloc_try(op, *c)
        if rc == 1 and (check is None or ('VIOLATED ' + check) in so):
            return {'replayer': 'alloc', 'input': {'op': op, 'used': c[0], 'max': c[1], 'limit': c[2], 'size': c[3], 'align': c[4], 'new': c[5]},
                    'output': so, 'cmd': '%s %s %s' % (ALLOC_BIN, op, ' '.join(str(x) for x in c))}
    return None


def find_witness(o, rep):
    if o.get('unit') == 'alloc':
        return _alloc_witness(o)
    return None


def replay(rep):
    w = rep.get('replay') or {}
    if w.get('replayer') == 'alloc':
        i = rep['input']
        rc, so = _alloc_try(i['op'], i['used'], i['max'], i['limit'], i['size'], i['align'], i['new'])
        print(so)
        print('replay: %s' % ('violation reproduced on the real code' if rc == 1 else 'not reproduced (rc=%d)' % rc))
        return 1 if rc == 1 else 0
    print('no replayer for this obligation')
    return 0


# ---------------------------------------------------------------------------
# Arithmetic witness search (C01/C02): candidate queries with an exact oracle
# (python Fractions + a dict of base-unit exponents), run on the real rink-core.
from fractions import Fraction as _F

CORE_DIR = os.path.join(ROOT, 'replay', 'core')
QUERY_BIN = os.path.join(WORK, 'replay-core-target', 'release', 'vx-replay-query')
_core_built = [False]


def build_core():
    if _core_built[0]:
        return 0
    shutil_copy = os.path.join(REPO, 'Cargo.lock')
    try:
        import shutil
        shutil.copy(shutil_copy, os.path.join(CORE_DIR, 'Cargo.lock'))
    except Exception:
        pass
    rc, so, se, dt = run(['cargo', 'build', '--release', '--offline'], cwd=CORE_DIR,
                         env=env_offline({'CARGO_TARGET_DIR': os.path.join(WORK, 'replay-core-target')}), timeout=1800)
    _core_built[0] = (rc == 0)
    return rc


def run_queries(lines, timeout=20):
    """-> list of (line, text, raw or None) ; text starts with PANIC / ERR / reply"""
    out = []
    for ln in lines:
        rc, so, se, dt = run([QUERY_BIN, ln], timeout=timeout)
        body = so.split('\n', 1)[1] if '\n' in so else so
        if rc == 124:
            body = 'TIMEOUT'
        raw = None
        for l in body.splitlines():
            if l.startswith('RAW '):
                raw = l[4:]
        out.append((ln, body.strip(), raw))
    return out


def _lit(x, unit=''):
    f = _F(x)
    s = '(%d|%d)' % (f.numerator, f.denominator) if f.denominator != 1 else '(%d)' % f.numerator
    return '(%s %s)' % (s, unit) if unit else s


def _trunc(f):
    return int(f) if f >= 0 else -int(-f)


def _expect(op, a, b, da, db):
    """exact result (Fraction, dims) or 'ERR'"""
    def scale(d, k):
        return {u: e * k for u, e in d.items() if e * k != 0}
    if op == 'pow':
        if b.denominator != 1 or db:
            return None
        e = int(b)
        if a == 0 and e < 0:
            return 'ERR'
        return (a ** e, scale(da, e))
    if op in ('shl', 'shr'):
        if db:
            return 'ERR'
        if b.denominator != 1:
            return 'ERR'
        k = int(b) if op == 'shl' else -int(b)
        return (a * (_F(2) ** k), dict(da))
    if op == 'rem':
        if da != db:
            return 'ERR'
        if b == 0:
            return 'ERR'
        return (a - b * _trunc(a / b), dict(da))
    if op in ('and', 'or', 'xor'):
        if da or db or a.denominator != 1 or b.denominator != 1:
            return 'ERR'
        x, y = int(a), int(b)
        return (_F({'and': x & y, 'or': x | y, 'xor': x ^ y}[op]), {})
    if op in ('add', 'sub'):
        if da != db:
            return 'ERR'
        return (a + b if op == 'add' else a - b, dict(da))
    if op == 'mul':
        d = dict(da)
        for u, e in db.items():
            d[u] = d.get(u, 0) + e
        return (a * b, {u: e for u, e in d.items() if e})
    if op == 'div':
        if b == 0:
            return 'ERR'
        d = dict(da)
        for u, e in db.items():
            d[u] = d.get(u, 0) - e
        return (a / b, {u: e for u, e in d.items() if e})
    if op == 'neg':
        return (-a, dict(da))
    return None


_SYM = {'pow': '^', 'shl': '<<', 'shr': '>>', 'rem': 'mod', 'and': 'and', 'or': 'or', 'xor': 'xor', 'add': '+', 'sub': '-', 'mul': '*', 'div': '/'}
_VALS = [_F(0), _F(1), _F(-1), _F(2), _F(-2), _F(3), _F(-3), _F(7), _F(-7), _F(1, 2), _F(-2, 3), _F(5, 2), _F(-7, 2), _F(12), _F(255), _F(-256)]
_UNITS = [('', {}), ('m', {'m': 1}), ('m^2/s', {'m': 2, 's': -1}), ('s/m', {'m': -1, 's': 1}), ('kg m', {'kg': 1, 'm': 1}), ('1/m', {'m': -1})]


def _ops_for_slot(slot):
    s = (slot or '').lower()
    table = [('pow', ['pow']), ('root', ['pow']), ('shl', ['shl']), ('shr', ['shr']), ('rem', ['rem']), ('::and', ['and']), ('::or', ['or']), ('xor', ['xor']),
             ('add', ['add']), ('sub', ['sub']), ('mul', ['mul', 'div', 'pow']), ('div', ['div', 'rem']), ('neg', ['neg', 'sub']), ('invert', ['div', 'pow']),
             ('btree_merge', ['mul', 'div']), ('dimensionality', ['mul', 'div', 'pow'])]
    ops = []
    for key, o in table:
        if key in s:
            ops += [x for x in o if x not in ops]
    return ops or ['pow', 'shl', 'shr', 'rem', 'and', 'or', 'xor', 'add', 'sub', 'mul', 'div', 'neg']


def _dims_str(d):
    return ','.join('%s:%d' % (u, d[u]) for u in sorted(d))


def _arith_witness(o, budget=400):
    if build_core() != 0:
        return None
    ops = _ops_for_slot(o.get('slot'))
    tried = 0
    for op in ops:
        for (ua, da) in _UNITS:
            for (ub, db) in (_UNITS if op in ('mul', 'div', 'add', 'sub', 'rem') else [('', {})]):
                for a in _VALS:
                    for b in (_VALS if op != 'neg' else [_F(0)]):
                        if op in ('pow', 'shl', 'shr') and abs(b) > 12:
                            continue
                        exp = _expect(op, a, b, da, db)
                        if exp is None:
                            continue
                        q = ('-%s' % _lit(a, ua)) if op == 'neg' else '%s %s %s' % (_lit(a, ua), _SYM[op], _lit(b, ub))
                        tried += 1
                        if tried > budget:
                            return None
                        (ln, text, raw) = run_queries([q])[0]
                        bad = None
                        if text.startswith('PANIC') or text.startswith('TIMEOUT'):
                            bad = text.splitlines()[0]
                        elif exp == 'ERR':
                            if not text.startswith('ERR'):
                                bad = 'expected an error, got: ' + text.splitlines()[0]
                        else:
                            val, dims = exp
                            want = '%d/%d | %s' % (val.numerator, val.denominator, _dims_str(dims))
                            if raw is None:
                                bad = 'expected %s, got: %s' % (want, text.splitlines()[0])
                            else:
                                # the dimension names come back in the database's spelling of base units
                                got_val, got_dims = raw.split(' | ') if ' | ' in raw else (raw.rstrip(' |'), '')
                                if got_val.strip() != '%d/%d' % (val.numerator, val.denominator) or _norm_dims(got_dims) != _dims_str(dims):
                                    bad = 'expected RAW %s, got RAW %s' % (want, raw)
                        if bad:
                            return {'replayer': 'query', 'input': {'query': q, 'expected': 'ERR' if exp == 'ERR' else want}, 'output': text, 'why': bad,
                                    'cmd': '%s %r' % (QUERY_BIN, q)}
    return None


def _norm_dims(s):
    m = {'meter': 'm', 'second': 's', 'kilogram': 'kg', 'gram': 'g'}
    parts = []
    for p in [x for x in s.strip().split(',') if x]:
        u, e = p.rsplit(':', 1)
        parts.append((m.get(u, u), int(e)))
    return ','.join('%s:%d' % (u, e) for u, e in sorted(parts))


_alloc_find = find_witness


def find_witness(o, rep):  # noqa: F811
    if o.get('unit') == 'alloc':
        return _alloc_witness(o)
    if o.get('unit') in ('arith', 'dims', 'unitlist', 'value', 'evalops'):
        return _arith_witness(o)
    return None


_alloc_replay = replay


def replay(rep):  # noqa: F811
    w = rep.get('replay') or {}
    if w.get('replayer') == 'query':
        if build_core() != 0:
            print('cannot build the replay crate')
            return 0
        q = rep['input']['query']
        (ln, text, raw) = run_queries([q])[0]
        print('> ' + q)
        print(text)
        print('expected: ' + str(rep['input'].get('expected')))
        exp = rep['input'].get('expected')
        bad = text.startswith('PANIC') or text.startswith('TIMEOUT') or (exp == 'ERR' and not text.startswith('ERR')) or (exp != 'ERR' and (raw is None or _norm_raw(raw) != _norm_raw(exp)))
        print('replay: %s' % ('violation reproduced on the real code' if bad else 'not reproduced'))
        return 1 if bad else 0
    return _alloc_replay(rep)


def _norm_raw(r):
    v, d = (r.split(' | ') + [''])[:2] if ' | ' in r else (r.rstrip(' |'), '')
    return v.strip() + ' | ' + _norm_dims(d)


# ---------------------------------------------------------------------------
# Unit-list witness search (C09): laws of the decomposition checked on the real code
_LEN = {'m': _F(1), 'ft': _F(3048, 10000), 'inch': _F(254, 10000), 'yard': _F(9144, 10000), 'mile': _F(1609344, 1000), 'cm': _F(1, 100), 'foot': _F(3048, 10000), 'meter': _F(1), 'km': _F(1000), 'kilometer': _F(1000)}
_TIME = {'second': _F(1), 'minute': _F(60), 'hour': _F(3600), 'hr': _F(3600), 'min': _F(60), 's': _F(1), 'day': _F(86400), 'week': _F(604800), 'year': _F(315569259746784, 10000000)}


def _check_parts(v, names, table, text):
    """returns a reason string if the PARTS line violates the decomposition laws"""
    parts_line = [l for l in text.splitlines() if l.startswith('PARTS ')]
    if not parts_line:
        return 'no PARTS in reply: ' + text.splitlines()[0]
    items = [x.strip() for x in parts_line[0][6:].split(';')]
    if len(items) != len(names):
        return 'expected %d parts, got %d' % (len(names), len(items))
    vals = []
    for it in items:
        num = it.split(' ')[0]
        if '/' not in num or num.startswith('float') or num.startswith('none'):
            return 'part is not an exact rational: ' + it
        n, d = num.split('/')
        vals.append(_F(int(n), int(d)))
    total = sum(p * table[u] for p, u in zip(vals, names))
    if total != v:
        return 'sum(part_i * u_i) = %s differs from the value %s' % (total, v)
    for i, p in enumerate(vals[:-1]):
        if p.denominator != 1:
            return 'part %d (%s) is not an integer' % (i, p)
    for i, p in enumerate(vals):
        if p != 0 and (p > 0) != (v > 0):
            return 'part %d (%s) does not share the sign of the value' % (i, p)
    rem = v
    for i, (p, u) in enumerate(list(zip(vals, names))[:-1]):
        rem = rem - p * table[u]
        if abs(rem) >= abs(table[u]):
            return 'remainder %s after %s is not smaller than the unit' % (rem, u)
    return None


def _unitlist_witness(o):
    if build_core() != 0:
        return None
    cases = []
    for v in [_F(37, 10), _F(-37, 10), _F(1), _F(100), _F(-1609344, 1000), _F(0), _F(5, 2)]:
        for names in (['ft', 'inch'], ['inch', 'ft'], ['yard', 'ft', 'inch'], ['mile', 'yard', 'ft', 'inch'], ['m', 'cm']):
            cases.append((v, names, _LEN, '%s m' % _lit(v), None))
    # the same unit under two names, a unit twice, fractions with a common denominator
    for v in [_F(7, 2), _F(21, 1), _F(-7, 2)]:
        for names in (['ft', 'foot', 'inch'], ['km', 'kilometer', 'm'], ['m', 'meter'], ['ft', 'ft'], ['yard', 'inch']):
            cases.append((v, names, _LEN, '%s m' % _lit(v), None))
        for names in (['hour', 'hr', 'min'], ['hour', 'hour'], ['min', 'minute', 's']):
            cases.append((v * 3600, names, _TIME, '%s s' % _lit(v * 3600), None))
    for v in [_F(-5400), _F(100000), _F(90061), _F(1, 1000), _F(-1, 1000)]:
        for names in (['hour', 'minute', 'second'], ['hour', 'second', 'minute'], ['day', 'hour', 'minute', 'second']):
            cases.append((v, names, _TIME, '%s s' % _lit(v), None))
    # refused lists
    bad = [('1 m -> ft;inch;hour', None), ('1 m -> ft;hour', None), ('1 mile -> yard;ft;hour;minute', None), ('1 s -> ft;inch', None),
           ('1 m -> zilch;m', 'zilch 0 m'), ('1 m -> m;zilch', 'zilch 0 m')]
    for q, defs in bad:
        args = (['--defs', defs] if defs else []) + [q]
        rc, so, se, dt = run([QUERY_BIN] + args, timeout=20)
        body = so.split('> ' + q, 1)[1].strip() if ('> ' + q) in so else so
        if not body.startswith('ERR'):
            return {'replayer': 'unitlist', 'input': {'query': q, 'defs': defs, 'expected': 'ERR'}, 'output': body, 'why': 'expected a refusal, got: ' + body.splitlines()[0],
                    'cmd': ' '.join([QUERY_BIN] + ['%r' % a for a in args])}
    for v, names, table, lhs, defs in cases:
        q = '%s -> %s' % (lhs, ';'.join(names))
        (ln, text, raw) = run_queries([q])[0]
        why = text.splitlines()[0] if (text.startswith('PANIC') or text.startswith('TIMEOUT')) else _check_parts(v, names, table, text)
        if why:
            return {'replayer': 'unitlist', 'input': {'query': q, 'defs': None, 'value': str(v), 'units': names}, 'output': text, 'why': why, 'cmd': '%s %r' % (QUERY_BIN, q)}
    # the automatic duration breakdown
    for v in [_F(-5400), _F(100000), _F(90061), _F(31556926), _F(-1, 1000), _F(34560000), _F(-100000000), _F(315569259746784, 10000000) + 1, _F(3 * 315569259746784, 10000000)]:
        q = '%s s' % _lit(v)
        (ln, text, raw) = run_queries([q])[0]
        names = ['year', 'week', 'day', 'hour', 'minute', 'second']
        if 'PARTS' in text:
            why = _check_parts(v, names, _TIME, text)
            if why:
                return {'replayer': 'unitlist', 'input': {'query': q, 'defs': None, 'value': str(v), 'units': names}, 'output': text, 'why': why, 'cmd': '%s %r' % (QUERY_BIN, q)}
    return None


_fw2 = find_witness


def find_witness(o, rep):  # noqa: F811
    slot = (o.get('slot') or '')
    if slot.startswith('to_list') or slot == 'Numeric::div_rem':
        w = _unitlist_witness(o)
        if w:
            return w
    return _fw2(o, rep)


_rp2 = replay


def replay(rep):  # noqa: F811
    w = rep.get('replay') or {}
    if w.get('replayer') == 'unitlist':
        if build_core() != 0:
            return 0
        i = rep['input']
        args = (['--defs', i['defs']] if i.get('defs') else []) + [i['query']]
        rc, so, se, dt = run([QUERY_BIN] + args, timeout=20)
        print(so)
        body = so.split('> ' + i['query'], 1)[1].strip() if ('> ' + i['query']) in so else so
        if i.get('expected') == 'ERR':
            bad = not body.startswith('ERR')
        else:
            table = _TIME if i['units'][0] in _TIME else _LEN
            why = body.splitlines()[0] if body.startswith('PANIC') else _check_parts(_F(i['value']), i['units'], table, body)
            bad = bool(why)
            print('law check: %s' % why)
        print('replay: %s' % ('violation reproduced on the real code' if bad else 'not reproduced'))
        return 1 if bad else 0
    return _rp2(rep)


def search_family(fam, prop):
    """bounded replay search used when a unit is undecided"""
    if fam == 'unitlist':
        return _unitlist_witness({})
    if fam == 'arith':
        return _arith_witness({'slot': ''}, budget=1500)
    return None


# ---------------------------------------------------------------------------
# Session histories (C15): fixed multi-query histories with the reply the property dictates
_SESSIONS = [
    (['--ans', '3 m', 'ans * 2', 'ans * 2'], 'RAW 12/1 | m:1'),
    (['--ans', '3 m', '10 ft -> inch', 'ans'], 'RAW 3/1 | m:1'),
    (['--ans', '5 kg', '255 -> hex', 'ans'], 'RAW 5/1 | kg:1'),
    (['--ans', '3 m', 'foo bar baz', 'ans'], 'RAW 3/1 | m:1'),
    (['--ans', '3 m', 'units for length', 'ans'], 'RAW 3/1 | m:1'),
    (['--ans', '3 m', 'meter', 'ans'], 'RAW 3/1 | m:1'),
    (['--ans', '3 m', 'search foo', 'ans'], 'RAW 3/1 | m:1'),
    (['--ans', '3 m', '5 s', 'ans'], 'RAW 5/1 | s:1'),
    (['--ans', '3 m', 'factorize velocity', 'ans'], 'RAW 3/1 | m:1'),
    (['3 m', ':ans on', 'ans * 2'], 'ERR'),
    (['--ans', '3 m', ':ans off', '7 kg', ':ans on', 'ans'], 'RAW 3/1 | m:1'),
    (['--ans', '2', 'ans + 1', 'ans + 1', 'ans + 1'], 'RAW 5/1 | '),
    (['--ans', '3 m', 'ANS', '_ * 2'], 'RAW 6/1 | m:1'),
    (['--ans', '1 m', '2 m', 'meter', 'ans'], 'RAW 2/1 | m:1'),
]


def _session_ok(reply, want):
    """the last reply of a history against what the property dictates: its value and dimensionality (how a reply is printed is not
    this property's business), or that it is an error"""
    first = reply.splitlines()[0] if reply else ''
    if want == 'ERR':
        return first.startswith('ERR')
    raws = [l[4:] for l in reply.splitlines() if l.startswith('RAW ')]
    return bool(raws) and _norm_raw(raws[-1]) == _norm_raw(want[4:])


def _session_witness():
    if build_core() != 0:
        return None
    for args, want in _SESSIONS:
        rc, so, se, dt = run([QUERY_BIN] + args, timeout=30)
        blocks = [b for b in so.split('\n> ') if b.strip()]
        last = blocks[-1] if blocks else ''
        reply = '\n'.join(last.split('\n')[1:]).strip()
        first = reply.splitlines()[0] if reply else ''
        ok = _session_ok(reply, want)
        if 'PANIC' in so:
            ok = False
        if not ok:
            return {'replayer': 'session', 'input': {'history': args, 'expected_last_reply': want}, 'output': so, 'why': 'history %s: expected last reply %r, got %r' % (args, want, first),
                    'cmd': ' '.join([QUERY_BIN] + ['%r' % a for a in args])}
    return None


_sf2 = search_family


def search_family(fam, prop):  # noqa: F811
    if fam == 'session':
        return _session_witness()
    return _sf2(fam, prop)


_fw3 = find_witness


def find_witness(o, rep):  # noqa: F811
    if o.get('unit') == 'session':
        return _session_witness()
    return _fw3(o, rep)


_rp3 = replay


def replay(rep):  # noqa: F811
    w = rep.get('replay') or {}
    if w.get('replayer') == 'session':
        if build_core() != 0:
            return 0
        i = rep['input']
        rc, so, se, dt = run([QUERY_BIN] + i['history'], timeout=30)
        print(so)
        blocks = [b for b in so.split('\n> ') if b.strip()]
        reply = '\n'.join((blocks[-1] if blocks else '').split('\n')[1:]).strip()
        first = reply.splitlines()[0] if reply else ''
        want = i['expected_last_reply']
        ok = _session_ok(reply, want)
        print('expected last reply: %r' % want)
        print('replay: %s' % ('not reproduced' if ok and 'PANIC' not in so else 'violation reproduced on the real code'))
        return 0 if ok else 1
    return _rp3(rep)


# ---------------------------------------------------------------------------
# Date arithmetic (C14): round trips, differences across zones, offset conversions
_D0 = '#2020-01-01 00:00:00#'
_DATE_CASES = []
for _t, _ns in [('500 ns', 500), ('(-250 ns)', -250), ('1.5 ms', 1500000), ('(-1500 us)', -1500000), ('1 s', 10**9), ('(-86400.000000001 s)', -86400000000001),
                ('(10000000000 s + 500 ns)', 10**19 + 500), ('0.000000001 s', 1), ('(-0.0015 s)', -1500000), ('90061.5 s', 90061500000000)]:
    _DATE_CASES.append(('((%s + %s) - %s) / (1 ns)' % (_D0, _t, _D0), 'RAW %d/1 | ' % _ns))
    _DATE_CASES.append(('(((%s - %s) + %s) - %s) / (1 ns)' % (_D0, _t, _t, _D0), 'RAW 0/1 | '))
_DATE_CASES += [
    ('(#2020-01-01 12:00:00 US/Pacific# - #2020-01-01 00:00:00 +00:00#) / (1 s)', 'RAW 72000/1 | '),
    ('(#2020-01-01 00:00:00 +00:00# - #2020-01-01 12:00:00 US/Pacific#) / (1 s)', 'RAW -72000/1 | '),
    ('(#2020-01-01 12:00:00 US/Pacific# - #2020-01-01 12:00:00 -08:00#) / (1 s)', 'RAW 0/1 | '),
    ('((#2020-01-01 12:00:00 US/Pacific# + 90 s) - #2020-01-01 12:00:00 -08:00#) / (1 s)', 'RAW 90/1 | '),
    ('(#2020-07-01 12:00:00 US/Pacific# - #2020-07-01 19:00:00 +00:00#) / (1 s)', 'RAW 0/1 | '),
    ('#2020-07-01 12:00:00 US/Pacific# -> +00:00', '2020-07-01 19:00:00 +00:00'),
    ('#2020-07-01 12:00:00 US/Pacific# -> GMT', '2020-07-01 19:00:00 GMT'),
    ('#2020-01-01 00:00:00# -> +05:30', '2020-01-01 05:30:00 +05:30'),
    ('#2020-01-01 00:00:00# -> -23:59', '2019-12-31 00:01:00 -23:59'),
    ('#2020-01-01 00:00:00# -> +25:00', 'ERR'),
    ('#2020-01-01 00:00:00# -> -24:00', 'ERR'),
    ('#2020-01-01 00:00:00# -> +99:99', 'ERR'),
]


def _dates_witness():
    if build_core() != 0:
        return None
    for q, want in _DATE_CASES:
        (ln, text, raw) = run_queries([q])[0]
        if want.startswith('RAW '):
            ok = raw is not None and _norm_raw(raw) == _norm_raw(want[4:])
        elif want == 'ERR':
            ok = text.startswith('ERR')
        else:
            ok = text.splitlines()[0].startswith(want) if text else False
        if text.startswith('PANIC') or text.startswith('TIMEOUT'):
            ok = False
        if not ok:
            return {'replayer': 'dates', 'input': {'query': q, 'expected': want}, 'output': text, 'why': 'expected %r, got %r' % (want, (text.splitlines() or [''])[0] + (' / RAW ' + raw if raw else '')),
                    'cmd': '%s %r' % (QUERY_BIN, q)}
    return None


_sf3 = search_family


def search_family(fam, prop):  # noqa: F811
    if fam == 'dates':
        return _dates_witness()
    return _sf3(fam, prop)


_fw4 = find_witness


def find_witness(o, rep):  # noqa: F811
    slot = o.get('slot') or ''
    if slot.startswith('datetime::') or slot.startswith('GenericDateTime') or slot in ('Value::add', 'Value::sub') or slot.startswith('eval_query::offset') or slot.startswith('parse_offset'):
        w = _dates_witness()
        if w:
            return w
    return _fw4(o, rep)


_rp4 = replay


def replay(rep):  # noqa: F811
    w = rep.get('replay') or {}
    if w.get('replayer') == 'dates':
        if build_core() != 0:
            return 0
        i = rep['input']
        (ln, text, raw) = run_queries([i['query']])[0]
        print('> ' + i['query'])
        print(text)
        want = i['expected']
        if want.startswith('RAW '):
            ok = raw is not None and _norm_raw(raw) == _norm_raw(want[4:])
        elif want == 'ERR':
            ok = text.startswith('ERR')
        else:
            ok = text.splitlines()[0].startswith(want) if text else False
        print('expected: %r' % want)
        print('replay: %s' % ('not reproduced' if ok else 'violation reproduced on the real code'))
        return 0 if ok else 1
    return _rp4(rep)


# ---------------------------------------------------------------------------
# Name resolution (C07): names with several readings, with the reading the property dictates
_LOOKUP_DEFS = 'icrofoo 3 m\nfoo 5 s\nglas 3 m\nkfoo 7 m\n'
_LOOKUP_CASES = [
    ('dat / (deci at)', 'RAW 1/1 | '), ('dau / (deci au)', 'RAW 1/1 | '), ('dasb / (deci asb)', 'RAW 1/1 | '),
    ('microfoo / (milli icrofoo)', 'RAW 1/1 | '), ('kfoo / (7 m)', 'RAW 1/1 | '), ('kfoos / (7 m)', 'RAW 1/1 | '),
    ('meterss', 'ERR'), ('kmss', 'ERR'), ('3 hourss', 'ERR'), ('glasss', 'ERR'), ('glass / glas', 'RAW 1/1 | '),
    ('ks / kilosecond', 'RAW 1/1 | '), ('pcs / pc', 'RAW 1/1 | '), ('hands / hand', 'RAW 1/1 | '), ('mm / (milli m)', 'RAW 1/1 | '),
    # the reply's value; under which name the target is shown is the canonical-name sweep's business (any name that denotes the same)
    ('1 at -> dat', 'RAW 10/1 | '), ('1 micron -> mm', 'RAW 1/1000 | '),
    ('dam / (deca m)', 'RAW 1/1 | '), ('min / (60 s)', 'RAW 1/1 | '), ('1 m', 'RAW 1/1 | m:1'),
    ('yoctodecillion / (yocto decillion)', 'RAW 1/1 | '), ('yoctodecillions / (yocto decillion)', 'RAW 1/1 | '), ('ym / (yocto m)', 'RAW 1/1 | '),
    ('daA / (deci aA)', 'RAW 1/1 | '), ('1 kclick / (1000 click)', 'RAW 1/1 | '),
]
# resolution does not depend on what was resolved before: every case is also asked after these, in one process
_LOOKUP_HISTORY = ['dam', 'ym', 'kfoo', 'yoctometer', 'dat', 'mm']
_LOOKUP_SUBST = ('widget {\n    mass const widget_mass 3 kg\n    weight const widget_weight mass gravity\n}\n', 'weight of widget', 'RAW 588399/20000 | kg:1,m:1,s:-2')


def _lookup_witness():
    if build_core() != 0:
        return None
    def judge(text, raw, want):
        if text.startswith('PANIC') or text.startswith('TIMEOUT'):
            return False
        if want.startswith('RAW '):
            return raw is not None and _norm_raw(raw) == _norm_raw(want[4:])
        if want == 'ERR':
            return text.startswith('ERR')
        return bool(text) and text.splitlines()[0].startswith(want)
    for hist in ([], _LOOKUP_HISTORY):
        for q, want in _LOOKUP_CASES:
            seq = [q]
            for h in hist:
                seq += [h, q]
            rc, so, se, dt = run([QUERY_BIN, '--defs', _LOOKUP_DEFS] + seq, timeout=60)
            blocks = [b.strip() for b in so.split('> ' + q + '\n')[1:]] if ('> ' + q) in so else [so]
            blocks = [b.split('\n> ')[0] for b in blocks]
            body, raw, okall = '', None, True
            for body in blocks:
                raw = None
                for l in body.splitlines():
                    if l.startswith('RAW '):
                        raw = l[4:]
                if not judge(body, raw, want):
                    okall = False
                    break
            if not okall:
                return {'replayer': 'lookup', 'input': {'defs': _LOOKUP_DEFS, 'history': hist, 'query': q, 'expected': want}, 'output': body,
                        'why': 'expected %r%s, got %r' % (want, (' after the queries %s' % hist) if hist else '', (body.splitlines() or [''])[0] + (' / RAW ' + raw if raw else '')),
                        'cmd': '%s --defs %r %s %r' % (QUERY_BIN, _LOOKUP_DEFS, ' '.join(repr(h) for h in hist), q)}
    # canonical names, exhaustively: every prefix x (unit, base unit, long name, defined name) [+ s] of the bundled database
    # (about 560000 names) and of the database with the colliding definitions: the canonical name denotes what the name denotes
    sweeps = [[], ['--defs', _LOOKUP_DEFS]]
    if os.environ.get('VERIF_TIER') == 'thorough':
        # random databases with deliberately colliding names: names glued from prefix spellings and fragments of them, so that a
        # name has several prefix + unit readings, shadows a plural or completes a long prefix (seeded by VERIF_SEED)
        import random as _rnd
        rng = _rnd.Random(int(os.environ.get('VERIF_SEED', '1') or 1))
        parts = ['m', 'icro', 'u', 'k', 'ilo', 'd', 'a', 'da', 's', 'ss', 'zfo', 'zf', 'o', 'in', 'h', 'ecto', 'c', 'enti', 'illi', 'eci', 'eca', 'zq']
        for _ in range(8):
            names = set()
            while len(names) < 14:
                n = ''.join(rng.choice(parts) for _ in range(rng.randint(2, 4)))
                if 'z' in n:   # never a name of the bundled database
                    names.add(n)
            text = ''.join('%s %d %s\n' % (n, rng.randint(2, 97), rng.choice(['m', 's', 'kg'])) for n in sorted(names))
            sweeps.append(['--defs', text])
    for defs_args in sweeps:
        rc, so, se, dt = run([QUERY_BIN] + defs_args + ['--canon-sweep', '1'], timeout=600)
        bad = [l for l in so.splitlines() if l.startswith('CANON-BAD')]
        summary = [l for l in so.splitlines() if l.startswith('CANON-SWEEP')]
        # listed findings (known_findings.json, matched per name) are reported as such and not as violations
        import re as _re7
        known = _known_entries('C07', 'bounded::lookup#') if defs_args else []
        rest_bad = []
        for l in bad:
            for k in known:
                if _re7.search(k['match'], l):
                    if k['obligation'] not in known_hits.setdefault('lookup', []):
                        known_hits['lookup'].append(k['obligation'])
                    break
            else:
                rest_bad.append(l)
        if len(bad) >= 20 and not rest_bad and summary and not summary[0].endswith('bad=%d' % len(bad)):
            rest_bad = ['CANON-BAD (more than the 20 names printed)']
        if bad and not rest_bad:
            rc = 0
        bad = rest_bad
        if bad or not summary or rc != 0:
            first = bad[0] if bad else (so + se)[-300:]
            return {'replayer': 'canonsweep', 'input': {'defs': defs_args[1] if defs_args else '', 'name': first.split(' ')[1] if bad else ''}, 'output': '\n'.join(bad[:20] + summary),
                    'why': 'canonicalising changes what the name denotes: %s (%s)' % (first, summary[0] if summary else 'no summary'),
                    'cmd': '%s %s --canon-sweep 1' % (QUERY_BIN, ' '.join(repr(a) for a in defs_args))}
    defs, q, want = _LOOKUP_SUBST
    rc, so, se, dt = run([QUERY_BIN, '--defs', defs, q], timeout=20)
    body = so.split('> ' + q, 1)[1].strip() if ('> ' + q) in so else so
    raw = None
    for l in body.splitlines():
        if l.startswith('RAW '):
            raw = l[4:]
    if not judge(body, raw, want):
        return {'replayer': 'lookup', 'input': {'defs': defs, 'query': q, 'expected': want}, 'output': body, 'why': 'expected %r, got %r' % (want, (body.splitlines() or [''])[0]), 'cmd': '%s --defs %r %r' % (QUERY_BIN, defs, q)}
    return None


_sf4 = search_family


def search_family(fam, prop):  # noqa: F811
    if fam == 'lookup':
        return _lookup_witness()
    return _sf4(fam, prop)


_fw5 = find_witness


def find_witness(o, rep):  # noqa: F811
    if o.get('unit') == 'lookup':
        w = _lookup_witness()
        if w:
            return w
    return _fw5(o, rep)


_rp5 = replay


def replay(rep):  # noqa: F811
    w = rep.get('replay') or {}
    if w.get('replayer') == 'canonsweep':
        if build_core() != 0:
            return 0
        i = rep['input']
        rc, so, se, dt = run([QUERY_BIN] + (['--defs', i['defs']] if i.get('defs') else []) + ['--canon-sweep', '1'], timeout=600)
        print(so)
        ok = rc == 0 and 'CANON-BAD' not in so
        print('replay: %s' % ('not reproduced' if ok else 'violation reproduced on the real code'))
        return 0 if ok else 1
    if w.get('replayer') == 'lookup':
        if build_core() != 0:
            return 0
        i = rep['input']
        rc, so, se, dt = run([QUERY_BIN, '--defs', i['defs'], i['query']], timeout=20)
        print(so)
        print('expected: %r' % i['expected'])
        body = so.split('> ' + i['query'], 1)[1].strip() if ('> ' + i['query']) in so else so
        raw = None
        for l in body.splitlines():
            if l.startswith('RAW '):
                raw = l[4:]
        want = i['expected']
        ok = (raw is not None and _norm_raw(raw) == _norm_raw(want[4:])) if want.startswith('RAW ') else (body.startswith('ERR') if want == 'ERR' else body.splitlines()[0].startswith(want))
        print('replay: %s' % ('not reproduced' if ok else 'violation reproduced on the real code'))
        return 0 if ok else 1
    return _rp5(rep)


# ---------------------------------------------------------------------------
# Conversions (C03): x * t == v exactly, conformance refusals, reciprocal flag, shown factors
_CONV_OK = [  # (query, v in base units, t in base units (value incl. constant), factor, divfactor)
    ('10 m -> 2 ft', _F(10), _F(2) * _F(3048, 10000), '2', None),
    ('1 mile -> 3 km / 2', _F(1609344, 1000), _F(1500), '3', '2'),
    ('10 m -> 1.5 ft', _F(10), _F(3, 2) * _F(3048, 10000), '3', '2'),
    ('1 m -> -2 m / 3', _F(1), _F(-2, 3), '-2', '3'),
    ('5 km -> m', _F(5000), _F(1), None, None),
    ('-3 inch -> cm', _F(-3) * _F(254, 10000), _F(1, 100), None, None),
    ('1 yard -> ft', _F(9144, 10000), _F(3048, 10000), None, None),
    ('0 m -> ft', _F(0), _F(3048, 10000), None, None),
    ('90 km/hour -> m/s', _F(25), _F(1), None, None),
    ('1 m -> kms', _F(1), _F(1000), None, None),
]
_CONV_ERR = [  # (query, expected number of suggestions; None = any error that is not a conformance error)
    ('1 Hz -> s', 1), ('1 s -> Hz', 1), ('1 m/s -> s/m', 1),
    ('1 m -> m^-2', 2), ('1 s -> 1/s^2', 2), ('1 Hz -> s^2', 2), ('1 W -> J', 2), ('1 m -> s', 2), ('1 m -> 0 s', 2), ('1 Hz -> 0 s', 1), ('5 -> 0 m', 2),
    ('1 m -> 0 ft', None), ('1 m -> 0 m', None), ('1 m -> 0 * 2^0.5 m', None), ('0 m -> (2^0.5 - 2^0.5) m', None),
]


def _convert_witness():
    if build_core() != 0:
        return None
    for q, v, t, fac, div in _CONV_OK:
        (ln, text, raw) = run_queries([q])[0]
        why = None
        if text.startswith('PANIC') or text.startswith('ERR') or raw is None:
            why = 'expected a conversion, got %r' % (text.splitlines() or [''])[0]
        else:
            num = raw.split(' | ')[0].strip()
            n, d = num.split('/')
            x = _F(int(n), int(d))
            if x * t != v:
                why = 'x * t = %s differs from v = %s (x = %s)' % (x * t, v, x)
            elif (raw.split(' | ') + [''])[1].strip() != '':
                why = 'the reported number is not dimensionless: %s' % raw
            else:
                fl = [l for l in text.splitlines() if l.startswith('FACTOR ')]
                want = 'FACTOR %s DIVFACTOR %s' % ('Some("%s")' % fac if fac else 'None', 'Some("%s")' % div if div else 'None')
                if not fl or fl[0] != want:
                    why = 'expected %s, got %s' % (want, fl[0] if fl else None)
        if why:
            return {'replayer': 'convert', 'input': {'query': q, 'expected': 'x*t == v'}, 'output': text, 'why': why, 'cmd': '%s %r' % (QUERY_BIN, q)}
    for q, nsug in _CONV_ERR:
        (ln, text, raw) = run_queries([q])[0]
        why = None
        if not text.startswith('ERR'):
            why = 'expected an error, got %r' % (text.splitlines() or [''])[0]
        else:
            sl = [l for l in text.splitlines() if l.startswith('SUGGESTIONS ')]
            if nsug is None:
                if sl:
                    why = 'expected a division-by-zero error, got a conformance error'
            elif not sl:
                why = 'expected a conformance error, got %r' % text.splitlines()[0]
            elif int(sl[0].split()[1]) != nsug:
                why = 'expected %d suggestion(s) (%s), got %s' % (nsug, 'reciprocal flag' if nsug == 1 else 'missing factor for both sides', sl[0])
        if why:
            return {'replayer': 'convert', 'input': {'query': q, 'expected': 'error with %s suggestions' % nsug}, 'output': text, 'why': why, 'cmd': '%s %r' % (QUERY_BIN, q)}
    return None


_sf5 = search_family


def search_family(fam, prop):  # noqa: F811
    if fam == 'convert':
        return _convert_witness()
    return _sf5(fam, prop)


_fw6 = find_witness


def find_witness(o, rep):  # noqa: F811
    slot = o.get('slot') or ''
    if slot.startswith('eval_query::convert') or slot in ('conformance_err', 'Context::show') or (slot == 'Number::div' and rep.get('property') == 'C03'):
        w = _convert_witness()
        if w:
            return w
    return _fw6(o, rep)


_rp6 = replay


def replay(rep):  # noqa: F811
    w = rep.get('replay') or {}
    if w.get('replayer') == 'convert':
        if build_core() != 0:
            return 0
        i = rep['input']
        (ln, text, raw) = run_queries([i['query']])[0]
        print('> ' + i['query'])
        print(text)
        print('expected: ' + i['expected'])
        w2 = _convert_witness()
        bad = bool(w2 and w2['input']['query'] == i['query'])
        print('replay: %s' % ('violation reproduced on the real code' if bad else 'not reproduced'))
        return 1 if bad else 0
    return _rp6(rep)


# ---- totality (C04): bounded token-soup search for a panic / abort / hang on the real code --------------
_TOT_WORDS = ['1', '2.5', '1e3', '1e-2', '0x1f', '0b101', '0o17', '"a b"', "'c'", 'm', 'kg', 's', 'ft', 'degC', '°F', 'kelvin',
              '(', ')', '+', '-', '*', '/', '|', '^', '**', '%', 'to', '->', 'in', 'per', 'mod', 'and', 'or', 'xor', '<<', '>>',
              '=', ',', ';', ':', '#2020-01-01#', '#now#', 'now', 'sqrt', 'sin', 'atan2', 'units', 'for', 'of', 'factorize', 'search',
              'digits', 'base', 'hex', 'oct', 'bin', 'frac', 'sci', 'eng', '\\u{41}', "'\\u{zz}'", '"\\u{110000}"', '//c', '/*c*/', '/*',
              'H2O', 'water', 'int', 'survey', '£', '€', '½', 'm²', 'e', '1e', '1e-', '0x', '1.', '.5', '_', '1_000', '—', '\\', '"',
              "'", '#', '+05:30', '-99:99', 'EST', 'US/Pacific', 'ans', '0', '-0', '1/0', '0^-1', '%%', 'x', 'to digits', 'to base 37',
              'to base 1', 'to digits 0', 'to digits 99', 'year', 'month', 'hour', 'googol', 'pi', 'tau', 'c', 'G', 'degF', 'bit', 'USD', 'percent']
_TOT_SMALL = ['1', '(', ')', '+', '-', '*', '/', '|', '^', '%', 'to', 'm', 'degC', 'sqrt', ',', ';', 'mod', '<<', '#now#', 'of', '0', '=', '"a"', 'H2O', 'digits']


def _tot_lines():
    seen = set()
    out = []

    def add(x):
        if x not in seen and len(x) <= 500:
            seen.add(x)
            out.append(x)
    for a in _TOT_WORDS:
        add(a)
    for a in _TOT_WORDS:
        for b in _TOT_WORDS:
            add(a + ' ' + b)
    for a in _TOT_SMALL:
        for b in _TOT_SMALL:
            for c in _TOT_SMALL:
                add(a + ' ' + b + ' ' + c)
                add(a + b + c)
    # number-lexer adjacency: fragments glued without spaces
    frag = ['1', '0', 'e', 'E', '_', '\u2009', '.', '-', '+', '0x', 'f', 'x', '0b', '0o', '9', 'e1', '%', '\\u', '{', '}', "'", '"']
    for a in frag:
        for b in frag:
            add(a + b)
            for c in frag:
                add(a + b + c)
                add('1' + a + b + c)
    # depth probes within one chat message
    for tok, n in (('-', 200), ('(', 120), ('%', 200), ('+', 200), ('sqrt ', 90), ('1^', 120), ('m ', 200), ('1|', 150), ('- -', 150)):
        add(tok * n + '1')
    add('(' * 100 + '1' + ')' * 100)
    # long names in scripts with multi-byte characters, at every byte alignment (messages that echo or shorten the input)
    for pad in range(0, 5):
        for ch, n in (('\u3042', 30), ('\u044f', 45), ('\U0001F600', 20), ('e\u0301', 40), ('\u00e9', 70), ('\u05d0', 50)):
            add('x' * pad + ch * n)
            add('1 ' + 'x' * pad + ch * n + ' -> m')
            add('"' + 'x' * pad + ch * n + '"')
            add("units for " + 'x' * pad + ch * n)
            add('x' * pad + ch * n + ' of water')
            add('#' + 'x' * pad + ch * n + '#')
    # fields at the edge of their integer types (inputs of repaired defects and their neighbours)
    for x in ('#2020-01-01 00:00:00.1234567890#', '#2020-01-01 00:00:00.12345678901234567890#', '#2020-01-01 00:00:00 +9999999:00#',
              '#2020-01-01 00:00:00 -2147483647:59#', '#2020-01-01 00:00:00 +596523:59#', '#2020-01-01 00:00:00 +9999#', '#jan 1, -2147483647 bc#',
              '#jan 1, 2147483647 bc#', '#jan 1, -2147483648 ad#', 
              '1 -> digits 2147483647', '22/7 -> digits 2147483646', '#2147483647-01-01#', '#0000-00-00#', '#99999-99-99 99:99:99#',
              '83.3379372011^4000', '0.999999999^5000', '(22|7)^3000', '2 kg gold + 3 mol silver', 'gold + gold m', 'radon + radon/m', '1 -> 1/((x=5) - (x=3))', '1 -> ((x=5) - (x=3))^-1', '1 m -> 1/((foot = 2 m) - foot)', '1 -> 1/(molar_mass of gold - molar_mass of silver)', 'm^2147483647 m', '1/m^2147483647/m', '1^2147483648', '1^-2147483648', '0 << 2147483648', '#12:60#', '#2020-01-01 23:60#', 'sqrt(4', 'atan2(1, 2', 'sin(', '(2 kg gold) + (3 m silver)', 'gold + -1 gold', '(gold + -1 gold) -> mol', '1 -> 1/(0+1)', '1 m -> m/(0+2)', '1 -> (0+1)^-1', '12 -> 6 xor 6', '10 foot -> 3 foot - 3 foot', '1 foot -> 7 foot mod 7 foot', '8 m^2 -> (4 m^4)^0.5'):
        add(x)
    return out


def _tot_run(lines, timeout):
    rc, so, se, dt = run([QUERY_BIN] + lines, timeout=timeout)
    return rc, so, se


def _tot_find(lines, timeout=40):
    """-> (line, what) for the first line that panics / aborts / hangs, else None"""
    rc, so, se = _tot_run(lines, timeout)
    if rc == 0:
        return None
    if rc == 1 and 'PANIC' in so:
        cur = None
        for l in so.splitlines():
            if l.startswith('> '):
                cur = l[2:]
            elif l.startswith('PANIC') and cur is not None:
                return (cur, l)
    if len(lines) == 1:
        what = 'does not answer within %d s (hang or runaway computation)' % timeout if rc == 124 else 'process died with status %s: %s' % (rc, one_line(se, 200))
        return (lines[0], what)
    # a batch that hangs or dies: every line on its own, in parallel, short timeout
    from concurrent.futures import ThreadPoolExecutor as _TPE
    with _TPE(max_workers=16) as ex:
        rs = list(ex.map(lambda l: _tot_find([l], 10), lines))
    for r in rs:
        if r:
            return r
    return (' || '.join(lines[:3]) + ' ...', 'a history of %d lines fails (status %s) but no single line does' % (len(lines), rc))


def _totality_witness():
    if build_core() != 0:
        return None
    lines = _tot_lines()
    B = 400
    from concurrent.futures import ThreadPoolExecutor as _TPE, as_completed as _asc
    batches = [lines[i:i + B] for i in range(0, len(lines), B)]
    found = None
    ex = _TPE(max_workers=12)
    futs = [ex.submit(_tot_find, b) for b in batches]
    try:
        for f in _asc(futs):
            r = f.result()
            if r:
                found = r
                break
    finally:
        for f in futs:
            f.cancel()
        ex.shutdown(wait=True)
    if found:
        r = found
        return {'replayer': 'totality', 'input': {'query': r[0], 'expected': 'a reply or an error value'}, 'output': r[1],
                'why': 'the line %r makes the real evaluator: %s' % (r[0], r[1]), 'cmd': '%s %r' % (QUERY_BIN, r[0])}
    return None


_sf7 = search_family


def search_family(fam, prop):  # noqa: F811
    if fam == 'totality':
        return _totality_witness()
    return _sf7(fam, prop)


_fw8 = find_witness


def find_witness(o, rep):  # noqa: F811
    w = _fw8(o, rep)
    if w:
        return w
    if rep.get('property') == 'C04':
        return _totality_witness()
    return None


_rp8 = replay


def replay(rep):  # noqa: F811
    w = rep.get('replay') or {}
    if w.get('replayer') == 'totality':
        if build_core() != 0:
            return 0
        q = rep['input']['query']
        r = _tot_find([q], 60)
        print('> ' + q)
        print(r[1] if r else 'a reply or an error value')
        print('replay: %s' % ('violation reproduced on the real code' if r else 'not reproduced'))
        return 1 if r else 0
    return _rp8(rep)


# ---- substances (C16): relational checks on the real evaluator (bounded stand-in / replay) ------------
def _raw_frac(raw):
    num = raw.split(' | ')[0].strip()
    if num.startswith('float'):
        return None
    n, d = num.split('/')
    return _F(int(n), int(d))


_SUBST_ELEMS = {'H': 'hydrogen', 'C': 'carbon', 'O': 'oxygen', 'N': 'nitrogen', 'Na': 'sodium', 'Cl': 'chlorine'}
_SUBST_FORMULAS = [('CH4', {'C': 1, 'H': 4}), ('CH3COOH', {'C': 2, 'H': 4, 'O': 2}), ('C6H12O6', {'C': 6, 'H': 12, 'O': 6}), ('NaCl', {'Na': 1, 'Cl': 1}),
                   ('HOH', {'H': 2, 'O': 1}), ('C8H10N4O2', {'C': 8, 'H': 10, 'N': 4, 'O': 2}), ('NaClNa', {'Na': 2, 'Cl': 1}), ('C12', {'C': 12})]
_SUBST_NOT = ['Xx2', 'C2h', 'Hx', '2H', 'H2O-']


def _substance_witness():
    if build_core() != 0:
        return None

    def q(line):
        (ln, text, raw) = run_queries([line])[0]
        return text, (_raw_frac(raw) if raw else None), raw

    def bad(line, expected, text, why):
        return {'replayer': 'substance', 'input': {'query': line, 'expected': expected}, 'output': text, 'why': why, 'cmd': '%s %r' % (QUERY_BIN, line)}
    # linear in the amount, both directions, and the inverse
    for sub, out, inn, unit_in, unit_out in (('water', 'mass', 'volume', 'liter', 'kg'), ('gold', 'mass', 'amount', 'mol', 'g'), ('water', 'mass', 'volume', 'gallon', 'lb')):
        t1, v1, r1 = q('%s of 1 %s %s' % (out, unit_in, sub))
        if v1 is None:
            return bad('%s of 1 %s %s' % (out, unit_in, sub), 'a number', t1, 'expected a number, got %r' % t1.splitlines()[0])
        for a in (_F(3), _F(7, 2), _F(1, 1000), _F(0), _F(-2)):
            line = '%s of (%s/%s) %s %s' % (out, a.numerator, a.denominator, unit_in, sub)
            t, v, r = q(line)
            if v != a * v1:
                return bad(line, 'output * (a / input) = %s' % (a * v1), t, 'amount %s gives %s, expected %s (linear in the amount)' % (a, v, a * v1))
        # inverse through explicit units
        for a in (_F(3), _F(5, 2)):
            line1 = '%s of (%s/%s) %s %s' % (out, a.numerator, a.denominator, unit_in, sub)
            t, v, r = q(line1)
            t0, v0, r0 = q('(%s/%s) %s' % (a.numerator, a.denominator, unit_in))
            # value of the output in base units, fed back as an amount of the output quantity
            line2 = '%s of (%s/%s) %s %s' % (inn, v.numerator, v.denominator, 'kg', sub)
            t2, v2, r2 = q(line2)
            if v2 != v0:
                return bad(line2, 'the amount %s (base units) that produced this output' % v0, t2, 'asking for the %s of the reported %s returns %s, expected %s' % (inn, out, v2, v0))
    # scaling by a number scales every reported property
    for sub, prop in (('gold', 'molar_mass'), ('water', 'density'), ('gold', 'atomic_number')):
        t1, v1, r1 = q('%s of %s' % (prop, sub))
        if v1 is None:
            continue
        for k, form in ((_F(2), '(2 %s)'), (_F(1, 2), '(%s / 2)'), (_F(3, 4), '(3 %s / 4)'), (_F(5), '(%s * 5)')):
            line = '%s of %s' % (prop, form % sub)
            t, v, r = q(line)
            if v != k * v1:
                return bad(line, '%s times %s = %s' % (k, v1, k * v1), t, 'scaling the substance by %s gives %s, expected %s' % (k, v, k * v1))
    t, v, r = q('molar_mass of (gold / 0)')
    if not t.startswith('ERR'):
        return bad('molar_mass of (gold / 0)', 'an error', t, 'a substance divided by zero is not refused')
    # wrong dimensionality of the amount
    for line in ('mass of 3 m water', 'volume of 3 s water', 'mass of (0 m water)', 'volume of (0 s water)', 'mass of ((3 - 3) m water)', 'mass of 2 kg gold'):
        t, v, r = q(line)
        if line != 'mass of 2 kg gold' and not (t.startswith('ERR') and '\nSUGGESTIONS ' in t):
            return bad(line, 'a conformance error', t, 'an amount of the wrong dimensionality is not refused with a conformance error')
    # formulas: exact count-weighted sums
    mm = {}
    for sym, name in _SUBST_ELEMS.items():
        t, v, r = q('molar_mass of %s' % name)
        mm[sym] = v
    if all(x is not None for x in mm.values()):
        for f, counts in _SUBST_FORMULAS:
            line = 'molar_mass of %s' % f
            t, v, r = q(line)
            want = sum(_F(n) * mm[s] for s, n in counts.items())
            if v != want:
                return bad(line, 'the count-weighted sum %s' % want, t, 'molar mass of %s is %s, expected %s' % (f, v, want))
    for f in _SUBST_NOT:
        line = 'molar_mass of %s' % f
        t, v, r = q(line)
        if not t.startswith('ERR'):
            return bad(line, 'an error (not a formula)', t, 'text that is not a well-formed formula is treated as one')
    return None


_sf9 = search_family


def search_family(fam, prop):  # noqa: F811
    if fam == 'substance':
        return _substance_witness()
    return _sf9(fam, prop)


_fw10 = find_witness


def find_witness(o, rep):  # noqa: F811
    slot = o.get('slot') or ''
    if slot.startswith('Substance::') or slot.startswith('formula::') or slot in ('substance_from_formula', 'eval_expr::of') or o.get('unit') == 'substance':
        w = _substance_witness()
        if w:
            return w
    return _fw10(o, rep)


_rp10 = replay


def replay(rep):  # noqa: F811
    w = rep.get('replay') or {}
    if w.get('replayer') == 'substance':
        if build_core() != 0:
            return 0
        i = rep['input']
        (ln, text, raw) = run_queries([i['query']])[0]
        print('> ' + i['query'])
        print(text)
        print('expected: ' + i['expected'])
        w2 = _substance_witness()
        bad = bool(w2 and w2['input']['query'] == i['query'])
        print('replay: %s' % ('violation reproduced on the real code' if bad else 'not reproduced'))
        return 1 if bad else 0
    return _rp10(rep)


# ---- listing (C17): `units for` / `factorize` checked against the evaluator itself (bounded stand-in / replay) ----
_LIST_Q = [('current', 'A'), ('amount', 'mol'), ('force', 'kg m / s^2'), ('velocity', 'm/s'), ('length', '3 m'), ('energy', 'J'), ('frequency', '1/s'), ('area', 'm^2'), ('pressure', 'Pa'),
           ('time', 's'), ('angle', 'radian'), ('power', 'W'), ('charge', 'A s'), ('information', 'byte'), ('acceleration', 'm/s^2'), ('1', '7')]


def _dims_of(line):
    (ln, text, raw) = run_queries([line])[0]
    if raw is None:
        # durations and other replies without a raw number: read the dimensionality off `units for (<expr>)`
        (ln2, text2, raw2) = run_queries(['units for (%s)' % line])[0]
        ul = [l for l in text2.splitlines() if l.startswith('UNITSFOR ')]
        if not ul:
            return None
        rest = ul[0][9:]
        return rest.rsplit(' | ', 1)[1].strip() if ' | ' in rest else ''
    return (raw.split(' | ') + [''])[1].strip()


_LIST_MUST = {'current': ['ampere', 'abampere'], 'amount': ['mole'], 'length': ['meter', 'foot'], 'time': ['second', 'minute'], 'force': ['newton'], 'energy': ['joule'], '1': ['kilo', 'percent'],
              'frequency': ['hertz'], 'area': ['acre'], 'information': ['byte']}


def _dims_dict(d):
    out = {}
    for p in d.split(','):
        p = p.strip()
        if p:
            k, v = p.rsplit(':', 1)
            out[k] = int(v)
    return out


_qd_cache = {}


def _quantity_dims(name):
    """dimensionality registered under a quantity name, read off `units for <name>`"""
    if name not in _qd_cache:
        (ln, text, raw) = run_queries(['units for %s' % name])[0]
        ul = [l for l in text.splitlines() if l.startswith('UNITSFOR ')]
        if not ul:
            _qd_cache[name] = None
        else:
            rest = ul[0][9:]
            _qd_cache[name] = _dims_dict(rest.rsplit(' | ', 1)[1]) if ' | ' in rest else {}
    return _qd_cache[name]


def _listing_witness():
    if build_core() != 0:
        return None

    def bad(line, expected, text, why):
        return {'replayer': 'listing', 'input': {'query': line, 'expected': expected}, 'output': text, 'why': why, 'cmd': '%s %r' % (QUERY_BIN, line)}
    for qname, expr in _LIST_Q:
        replies = {}
        for x in (qname, expr):
            line = 'units for %s' % x
            (ln, text, raw) = run_queries([line])[0]
            ul = [l for l in text.splitlines() if l.startswith('UNITSFOR ')]
            if not ul:
                if qname == '1':
                    continue
                return bad(line, 'a unit listing', text, 'expected a unit listing, got %r' % (text.splitlines() or [''])[0])
            rest = ul[0][9:]
            body, dims = rest.rsplit(' | ', 1) if ' | ' in rest else (rest.rstrip('| ').rstrip(), '')
            groups = [g.split('=', 1) for g in body.split(';') if g]
            names = [n for g in groups for n in g[1].split(',') if n]
            if len(set(names)) != len(names):
                dup = [n for n in names if names.count(n) > 1][0]
                return bad(line, 'each unit once', text, 'the unit %s is listed %d times' % (dup, names.count(dup)))
            for must in _LIST_MUST.get(qname, []):
                if must not in names:
                    return bad(line, 'a listing that contains %s' % must, text, 'the unit %s is missing from the listing' % must)
            cats = [g[0] for g in groups]
            if len(set(cats)) != len(cats):
                return bad(line, 'one group per category', text, 'the category %s appears in two groups' % [c for c in cats if cats.count(c) > 1][0])
            for n in names[:60]:
                d = _dims_of('1 %s' % n)
                if d is not None and _norm_dims(d) != _norm_dims(dims):
                    return bad(line, 'only units of dimensionality %s' % dims, text, 'the listed unit %s has dimensionality %s, not %s' % (n, d, dims))
            replies[x] = (sorted(names), dims)
        if len(replies) == 2 and replies[qname] != replies[expr]:
            a, b = replies[qname][0], replies[expr][0]
            diff = sorted(set(a) ^ set(b))[:5]
            return bad('units for %s' % expr, 'the same answer as `units for %s`' % qname, '', 'quantity name and expression disagree: %s' % diff)
    for qname, expr in _LIST_Q[:11] + [('specific_volume', 'm^3/kg'), ('illuminance', 'cd sr / m^2'), ('radiation_exposure', 'A s / kg'), ('charge', 'A s')]:
        replies = {}
        for x in (qname, expr):
            line = 'factorize %s' % x
            (ln, text, raw) = run_queries([line])[0]
            fl = [l for l in text.splitlines() if l.startswith('FACTORIZE')]
            if not fl:
                return bad(line, 'a factorization', text, 'expected factorizations, got %r' % (text.splitlines() or [''])[0])
            fs = [f for f in fl[0][9:].strip().split(';') if f]
            if len(set(fs)) != len(fs):
                return bad(line, 'no duplicate products', text, 'a product is listed twice: %s' % [f for f in fs if fs.count(f) > 1][0])
            want = _dims_of('1 %s' % (expr if qname != '1' else '7'))
            for f in fs:
                tot = {}
                okp = True
                for t in (f.split('*') if f else []):
                    n, c = t.split('^')
                    d = _quantity_dims(n)
                    if d is None:
                        okp = False
                        break
                    for k2, v2 in d.items():
                        tot[k2] = tot.get(k2, 0) + v2 * int(c)
                tot = {k2: v2 for k2, v2 in tot.items() if v2 != 0}
                if okp and want is not None and tot != _dims_dict(want):
                    return bad(line, 'products of dimensionality %s' % want, text, 'the product %s multiplies out to %s, not %s' % (f, tot, want))
            replies[x] = sorted(fs)
        if replies[qname] != replies[expr]:
            return bad('factorize %s' % expr, 'the same answer as `factorize %s`' % qname, '', 'quantity name and expression disagree: %s vs %s' % (replies[qname][:3], replies[expr][:3]))
    return None


_sf11 = search_family


def search_family(fam, prop):  # noqa: F811
    if fam == 'listing':
        return _listing_witness()
    return _sf11(fam, prop)


_fw12 = find_witness


def find_witness(o, rep):  # noqa: F811
    slot = o.get('slot') or ''
    if slot.startswith('units_for::') or slot.startswith('factorize') or o.get('unit') == 'listing':
        w = _listing_witness()
        if w:
            return w
    return _fw12(o, rep)


_rp12 = replay


def replay(rep):  # noqa: F811
    w = rep.get('replay') or {}
    if w.get('replayer') == 'listing':
        if build_core() != 0:
            return 0
        i = rep['input']
        (ln, text, raw) = run_queries([i['query']])[0]
        print('> ' + i['query'])
        print(text[:2000])
        print('expected: ' + i['expected'])
        w2 = _listing_witness()
        bad = bool(w2 and w2['input']['query'] == i['query'])
        print('replay: %s' % ('violation reproduced on the real code' if bad else 'not reproduced'))
        return 1 if bad else 0
    return _rp12(rep)


# ---- loader (C13): definition texts loaded on top of the bundled database (bounded stand-in / replay) ----
def _cycle(n, kind):
    names = ['zc%s%d' % (kind[0], i) for i in range(n)]
    lines = []
    for i, nm in enumerate(names):
        nxt = names[(i + 1) % n]
        if kind == 'unit':
            lines.append('%s 2 %s' % (nm, nxt))
        elif kind == 'prefix':
            lines.append('%s- 2 %s' % (nm, nxt))
        elif kind == 'quantity':
            lines.append('%s ? %s' % (nm, nxt))
        elif kind == 'substance':
            lines.append('%s {\n p%d const q%d 2 %s m\n}' % (nm, i, i, nxt))
    return '\n'.join(lines) + '\n'


def _loader_cases():
    c = []
    for kind in ('unit', 'prefix', 'quantity', 'substance'):
        for n in (1, 2, 3, 50, 400):
            c.append((_cycle(n, kind), 'cycle'))
    c.append(('zmix 2 zmixq m\nzmixq {\n p const q 2 zmix m\n}\n', 'cycle'))
    # odd ends of input and malformed text: any result, but a result
    for t in ['"ba\\', '"unterminated', 'zfoo 2 m\n"ba\\', 'zfoo 2 m\n!include extra.units', 'zfoo 2 m\n! (', '!', '!category', '!category x', '!symbol a', 'zs {', 'zs {\n p', 'zs {\n p const',
              'zs {\n p const q', 'zs {\n p q 1 m /', 'zs {\n p q 1 m / r', '??', '?? doc', 'za 1 +', 'za (', 'za ((((', 'za 1|', 'za 2^', 'za -', 'za /', 'za 1 of', 'za x of', 'zp- ', 'zp-- ', 'zq ?', 'zq ? (',
              '\\', '\\\r', '\\\r\n', 'za 1e', 'za 1e-', 'za .', 'za 1.e5', '# c', 'za 1 # c', 'za\t2\tm', '}', '{', ') ) )', 'za 1|0', 'za- 1|0', 'za- 0^-1', 'za 0^-1', 'zq ? length^-3 time',
              'zb !\nzb !', 'zu 2 m\nzu 3 m', 'zfoo- 1^-2147483648', 'zfoo- 1^2147483647', 'zfoo 1^-2147483648', 'za ? length^9223372036854775807\nzb ? za^2', 'za ? length^-9223372036854775808', 'za ? length^4611686018427387904\nzb ? za za', 'zs {\n d const v 0 kg\n}', 'zs {\n d mass 1 kg / volume 0 m^3\n}', 'zs {\n d mass 1 kg / volume 1 s\n d mass 2 kg / volume 1 s\n}']:
        c.append((t, 'any'))
        c.append((t + '\n', 'any'))
    for t, qs in (('zfoo {\n p out 5 kg / in 0 m\n}\n', ['p of zfoo', 'p of (3 zfoo)', 'out of (2 m zfoo)']), ('zz {\n molar_mass mass 5 g / amount 0 mol\n}\n', ['molar_mass of zz', 'mass of (2 mol zz)']),
                  ('zfoo {\n p out 0 kg / in 5 m\n}\n', ['p of zfoo', 'in of (2 kg zfoo)'])):
        c.append((t, ('ask', qs)))
    c.append(('zgood 3 m\nzbad 2 znothing\nzalso 2 zgood\n', 'partial'))
    # a substance that fails half way must not leave its properties behind as units
    c.append(('zweight 10 m\nzpallet {\n zweight const zinv 3 m\n zheight const zinvh 2 znothing\n}\nzzdouble 2 zweight\n', 'shadow'))
    return c


def _has_raw(so, v):
    """some reply in the output has the raw value v (`n/d`): the value, not the way it is printed"""
    return any(l.startswith('RAW %s |' % v) for l in so.splitlines())


def _loader_run(text, queries, timeout=30):
    rc, so, se, dt = run([QUERY_BIN, '--defs', text] + queries, timeout=timeout)
    return rc, so, se


def _loader_witness():
    if build_core() != 0:
        return None
    from concurrent.futures import ThreadPoolExecutor as _TPE

    def one(case):
        text, kind = case
        extra = []
        if isinstance(kind, tuple):
            extra = kind[1]
            kind = 'any'
        rc, so, se = _loader_run(text, (['2 km -> m', 'zgood -> m', 'zalso -> m'] if kind == 'partial' else (['2 km -> m', 'zzdouble -> m', 'zweight -> m'] if kind == 'shadow' else ['2 km -> m'])) + extra)
        first = ([l for l in so.splitlines() if l.startswith('load_definitions:')] or [''])[0]
        if rc == 124:
            return (text, 'loading does not return within 30 s')
        if rc not in (0, 1) or 'PANIC' in so or not first.startswith('load_definitions:'):
            return (text, 'loading aborts: status %s %s' % (rc, one_line(se or so, 200)))
        if not _has_raw(so, '2000/1'):
            return (text, 'after loading, `2 km -> m` no longer answers 2000 meter: %s' % one_line(so, 200))
        if kind == 'cycle' and not any(w in first.lower() for w in ('cycle', 'cyclic', 'circular', 'recursi', 'itself')):
            return (text, 'the dependency cycle is not reported: %s' % one_line(first, 200))
        if kind == 'partial':
            if 'Err(' not in first or 'znothing' not in first:
                return (text, 'the unresolved name is not reported: %s' % one_line(first, 200))
            if not _has_raw(so, '3/1') or not _has_raw(so, '6/1'):
                return (text, 'definitions that did load do not answer: %s' % one_line(so, 300))
        if kind == 'shadow':
            if not _has_raw(so, '20/1') or not _has_raw(so, '10/1'):
                return (text, 'a property of a rejected substance shadows the unit of the same name: %s' % one_line(so, 300))
        return None
    for dates in ('ann\u00e9e-monthnum-fullday', 'fullyear-monthnum-fullday \u00fcber', "'lit\u00e9ral' fullyear", 'fullyear[-monthnum[-fullday]]', '[[[', ']', "'unterminated", 'x\u0301y', '\u65e5\u672c monthnum'):
        rc, so, se, dt = run([QUERY_BIN, '--dates', dates, '#2020-01-01#', '2 km -> m'], timeout=20)
        if rc == 124 or rc not in (0, 1) or 'PANIC' in so or not _has_raw(so, '2000/1'):
            return {'replayer': 'loader', 'input': {'date_patterns': dates, 'expected': 'the pattern file loads (or is refused) and the context still answers'}, 'output': one_line(so + se, 300),
                    'why': 'date pattern text %r: %s' % (dates, 'loading does not return within 20 s' if rc == 124 else one_line(so + se, 200)), 'cmd': '%s --dates %r %r' % (QUERY_BIN, dates, '2 km -> m')}
    # definitions loaded one after another: a later load may redefine a unit in terms of one of its own aliases; each load is
    # acyclic on its own, the alias graph of the registry is not - queries that name the units must still be answered
    two_loads = [('zca m\nzcb zca\n', x) for x in ('zca zcb\n', 'zca kzcb\n', 'zca 1 zcb\n', 'zcb zca\n', 'zca zcbs\n', 'zca zcc\nzcc zcb\n')]
    # an alias that leads into a cycle without being part of it, and a longer cycle
    two_loads += [('zcc m\nzcb zcc\nzca zcb\n', 'zcc zcb\n'), ('zcd m\nzcc zcd\nzcb zcc\nzca zcb\n', 'zcd zcb\n'), ('zcc m\nzcb zcc\nzca kzcb\n', 'zcc zcbs\n')]
    for first_text, second in two_loads:
        qs = ['2 km -> m', '3 zca', '3 zcb -> zca', 'zca', 'zcb', '3 kzcb -> kzca', 'units for zca', 'zcc', '3 zca -> zcc']
        rc, so, se, dt = run([QUERY_BIN, '--defs', first_text, '--defs', second] + qs, timeout=30)
        answered = so.count('\n> ') + (1 if so.startswith('> ') else 0)
        if rc == 124 or rc not in (0, 1) or 'PANIC' in so or not _has_raw(so, '2000/1') or answered < len(qs):
            why = 'queries do not return within 30 s' if rc == 124 else ('status %s, %d of %d queries answered: %s' % (rc, answered, len(qs), one_line((se or so)[-300:], 200)))
            return {'replayer': 'loader', 'input': {'definitions': first_text, 'second_load': second, 'expected': 'both loads return and the context still answers'}, 'output': one_line(so + se, 300),
                    'why': 'definitions %r then %r: %s' % (first_text, second, why), 'cmd': '%s --defs %r --defs %r %s' % (QUERY_BIN, first_text, second, ' '.join(repr(q) for q in qs))}
    cases = _loader_cases()
    with _TPE(max_workers=12) as ex:
        for r in ex.map(one, cases):
            if r:
                return {'replayer': 'loader', 'input': {'definitions': r[0], 'expected': 'loading returns, reports its problems, and the context still answers'}, 'output': r[1],
                        'why': 'definitions text %r: %s' % (r[0][:120], r[1]), 'cmd': '%s --defs %r %r' % (QUERY_BIN, r[0][:200], '2 km -> m')}
    return None


_sf13 = search_family


def search_family(fam, prop):  # noqa: F811
    if fam == 'loader':
        return _loader_witness()
    return _sf13(fam, prop)


_fw14 = find_witness


def find_witness(o, rep):  # noqa: F811
    slot = o.get('slot') or ''
    if slot.startswith('gnu::') or slot.startswith('Resolver::') or o.get('unit') in ('gnuloader', 'resolver'):
        w = _loader_witness()
        if w:
            return w
    return _fw14(o, rep)


_rp14 = replay


def replay(rep):  # noqa: F811
    w = rep.get('replay') or {}
    if w.get('replayer') == 'loader':
        if build_core() != 0:
            return 0
        text = rep['input']['definitions']
        rc, so, se = _loader_run(text, ['2 km -> m'])
        print('definitions: %r' % text[:300])
        print(so[:1500] if rc != 124 else 'TIMEOUT')
        w2 = _loader_witness()
        bad = bool(w2 and w2['input']['definitions'] == text and w2['input'].get('second_load') == rep['input'].get('second_load'))
        if bad and w2['input'].get('second_load'):
            print('second load: %r\n%s' % (w2['input']['second_load'], w2.get('why')))
        print('replay: %s' % ('violation reproduced on the real code' if bad else 'not reproduced'))
        return 1 if bad else 0
    return _rp14(rep)


# ---- order (C12): the same uniquely named definitions in several orders (bounded stand-in / replay) ----
_ORDER_DEFS = ['zoa 3 zob', 'zob 2 zoc zokilo', 'zoc 5 m', 'zokilo- 1000', 'zok-- zokilo', 'zolen ? zoarea / m', 'zoarea ? m^2 zobase^-4', 'zosub {\n zod const zoe 2 zoa\n}', '?? doc of zodoc\nzodoc 7 zoa',
               'zobase !', 'zousesbase 4 zobase zoa', 'zolong ! zolongname', 'zoul 2 zolongname',
               'zq-- 1|10', 'zqa-- 10', 'zzm !', 'azzm 7 zzm', 'zpfoo 3 zqazzm', 'zaplural 2 zokilozocs', '!symbol zoxy Zx', 'zoxy {\n molar_mass mass 16 g / amount mol\n}', '!category zocat "Zo Things"\nzincat 9 m\n!endcategory']
_ORDER_QUERIES = ['zoa', 'zob', '3 zoa -> m', 'zokzoc -> m', 'zodoc', 'zod of zosub', 'zousesbase', 'zoul', 'units for zoarea', '2 zokilozoc', 'zpfoo -> zzm', 'zaplural -> m', 'zqazzm -> zzm', 'molar_mass of Zx', 'molar_mass of Zx2', 'zincat']


def _order_witness():
    if build_core() != 0:
        return None
    import itertools
    n = len(_ORDER_DEFS)
    orders = [list(range(n)), list(reversed(range(n))), list(range(n // 2, n)) + list(range(n // 2)), [i for i in range(n) if i % 2] + [i for i in range(n) if not i % 2],
              sorted(range(n), key=lambda i: (i * 7) % n)]
    base = None
    for o in orders:
        text = '\n'.join(_ORDER_DEFS[i] for i in o) + '\n'
        rc, so, se, dt = run([QUERY_BIN, '--defs', text] + _ORDER_QUERIES, timeout=60)
        lines = [l for l in so.splitlines()]
        key = '\n'.join(l for l in lines if not l.startswith('Unknown'))
        if rc not in (0, 1) or 'PANIC' in so:
            return {'replayer': 'order', 'input': {'definitions': text, 'expected': 'loads'}, 'output': one_line(so + se, 300), 'why': 'loading order %s aborts' % o, 'cmd': QUERY_BIN}
        if base is None:
            base = (key, text)
            if 'load_definitions: Ok' not in so:
                return {'replayer': 'order', 'input': {'definitions': text, 'expected': 'loads without errors'}, 'output': one_line(so, 300), 'why': 'the reference order does not load cleanly: %s' % one_line(so, 200), 'cmd': QUERY_BIN}
        elif key != base[0]:
            a, b = base[0].splitlines(), key.splitlines()
            diff = [(x, y) for x, y in zip(a, b) if x != y][:2]
            return {'replayer': 'order', 'input': {'definitions': text, 'expected': 'the same database as any other order of the same definitions'}, 'output': one_line(key, 300),
                    'why': 'the order %s gives a different answer: %s' % (o, diff), 'cmd': '%s --defs %r ...' % (QUERY_BIN, text[:120])}
    return None


_sf15 = search_family


def search_family(fam, prop):  # noqa: F811
    if fam == 'order':
        return _order_witness()
    return _sf15(fam, prop)


_fw16 = find_witness


def find_witness(o, rep):  # noqa: F811
    if rep.get('property') == 'C12':
        w = _order_witness()
        if w:
            return w
    return _fw16(o, rep)


_rp16 = replay


def replay(rep):  # noqa: F811
    w = rep.get('replay') or {}
    if w.get('replayer') == 'order':
        if build_core() != 0:
            return 0
        w2 = _order_witness()
        print('definitions: %r' % rep['input']['definitions'][:300])
        print('replay: %s' % ('violation reproduced on the real code: %s' % w2['why'] if w2 else 'not reproduced'))
        return 1 if w2 else 0
    return _rp16(rep)


# ---- digits (C05): printed numerals parsed back and compared with the raw rational (bounded stand-in / replay) ----
_DIG_VALUES = ['1/7', '22/7', '1/3', '1/3937', '1/1000000007', '123456789/1000', '1e20', '1e-12', '0.1', '255', '-5/3', '1/97', '1234567.891', '2^70', '1/2^20', '10.5', '100.5',
               '999999999.5', '0.000000001', '1/6', '7/12', '-0.05', '3', '1000000', '1/81', '123/999', '2/3 * 1e-5', '1/34', '1/28', '1/17', '5/68', '1/61', '1234567891', '-1234567891']
_DIG_MODES = ['', 'digits', 'digits 3', 'digits 20', 'digits 0', 'sci', 'eng', 'frac']
_DIG_BASES = [10, 2, 7, 16, 30, 31, 36]


def _digval(c):
    if '0' <= c <= '9':
        return ord(c) - 48
    if 'a' <= c <= 'z':
        return ord(c) - 87
    return None


def _parse_plain(t, base):
    """-> (value Fraction, ulp Fraction, period_claim ok) of a numeral without exponent; raises ValueError"""
    neg = t.startswith('-')
    if neg:
        t = t[1:]
    rec = None
    if '[' in t:
        head, rest = t.split('[', 1)
        if not rest.endswith(']...'):
            raise ValueError('bad recurring block')
        block = rest[:-4]
        claimed = None
        if ', period ' in block:
            block, p = block.split(', period ')
            claimed = int(p)
        rec = block
        if claimed is not None and claimed != len(block):
            raise ValueError('stated period %d but the block has %d digits' % (claimed, len(block)))
        t = head
    ip, _, fp = t.partition('.')
    val = _F(0)
    for c in ip:
        d = _digval(c)
        if d is None or d >= base:
            raise ValueError('bad digit %r' % c)
        val = val * base + d
    scale = _F(1)
    for c in fp:
        d = _digval(c)
        if d is None or d >= base:
            raise ValueError('bad digit %r' % c)
        scale /= base
        val += d * scale
    if rec is not None:
        if not rec:
            raise ValueError('empty recurring block')
        r = 0
        for c in rec:
            d = _digval(c)
            if d is None or d >= base:
                raise ValueError('bad digit %r' % c)
            r = r * base + d
        val += _F(r, base ** len(rec) - 1) * scale
    return (-val if neg else val), scale


def _parse_numeral(t, base, frac_mode, sci_mode=False):
    t = t.strip()
    if frac_mode and all(ch in '-0123456789abcdefghijklmnopqrstuvwxyz/' for ch in t) and '.' not in t:
        # numerator and denominator are numerals of the requested base (C05; repaired by a2f4f99: they used to be decimal)
        n, _, d = t.partition('/')
        return _F(int(n, base), int(d, base) if d else 1), _F(0)
    import re as _re2
    if 'e' in t and (base <= 14 or sci_mode) and '.' in t.rsplit('e', 1)[0] and _re2.match(r'^-?[0-9]+$', t.rsplit('e', 1)[1]):
        m, ex = t.rsplit('e', 1)
        v, ulp = _parse_plain(m, base)
        k = int(ex)
        f = _F(base) ** k
        return v * f, ulp * f
    try:
        return _parse_plain(t, base)
    except ValueError:
        if not sci_mode and 'e' in t:
            return _parse_numeral(t, base, frac_mode, True)
        raise


def _digits_witness():
    if build_core() != 0:
        return None
    qs = []
    for v in _DIG_VALUES:
        for m in _DIG_MODES:
            for b in _DIG_BASES:
                if b == 10:
                    conv = m
                else:
                    conv = (m + ' base %d' % b).strip()
                qs.append((v, m, b, ('%s -> %s' % (v, conv)) if conv else v))
    from concurrent.futures import ThreadPoolExecutor as _TPE

    def one(item):
        v, m, b, line = item
        (ln, text, raw) = run_queries([line])[0]
        nl = [l for l in text.splitlines() if l.startswith('NUMERAL ')]
        if text.startswith('PANIC') or text == 'TIMEOUT':
            return (line, 'a numeral', text, 'the evaluator %s' % text.splitlines()[0][:120])
        if not nl or raw is None or raw.startswith('float'):
            return None
        n, d = raw.split(' | ')[0].strip().split('/')
        x = _F(int(n), int(d))
        import re as _re
        mm = _re.match(r'NUMERAL exact=(None|Some\("(.*?)"\)) approx=(None|Some\("(.*?)"\))$', nl[0])
        if not mm:
            return None
        ex, ap = mm.group(2), mm.group(4)
        first = text.splitlines()[0]
        if (ex is None) != first.startswith('approx.') and not first.startswith('approx.') == (ap is not None and ex is None):
            return (line, '`approx.` exactly when the numeral is not exact', text, 'marker and exactness disagree: %r' % first[:80])
        def readings(t, fm):
            out = []
            errs = []
            for sci in ((False, True) if (b > 14 and 'e' in t) else (m in ('sci', 'eng'),)):
                try:
                    if sci and b > 14 and 'e' in t:
                        mt, exs = t.rsplit('e', 1)
                        v0, u0 = _parse_plain(mt, b)
                        f = _F(b) ** int(exs)
                        out.append((v0 * f, u0 * f))
                    else:
                        out.append(_parse_numeral(t, b, fm, sci))
                except ValueError as e:
                    errs.append(str(e))
            if not out:
                raise ValueError('; '.join(errs))
            return out
        try:
            if ex is not None:
                rs = readings(ex, m == 'frac' or '/' in ex)
                if not any(val == x for val, ulp in rs):
                    return (line, 'an exact numeral denoting %s' % x, text, 'the numeral %s is marked exact but denotes %s, the value is %s' % (ex, rs[0][0], x))
            if ap is not None:
                if '[' in ap:
                    return (line, 'no recurring block on an approximate numeral', text, 'approximate numeral %s carries a recurring block' % ap)
                rs = readings(ap, False)
                if not any((abs(val) <= abs(x) < abs(val) + ulp) and not (x != 0 and val != 0 and (val < 0) != (x < 0)) for val, ulp in rs):
                    val, ulp = rs[0]
                    return (line, 'a truncation of %s within one unit of the last digit' % x, text, 'the approximate numeral %s denotes %s; the value %s is not within [v, v + %s)' % (ap, val, x, ulp))
        except ValueError as e:
            return (line, 'a well-formed numeral', text, 'cannot read the numeral: %s' % e)
        return None
    with _TPE(max_workers=12) as exq:
        for r in exq.map(one, qs):
            if r:
                return {'replayer': 'digits', 'input': {'query': r[0], 'expected': r[1]}, 'output': r[2], 'why': r[3], 'cmd': '%s %r' % (QUERY_BIN, r[0])}
    return None


_sf17 = search_family


def search_family(fam, prop):  # noqa: F811
    if fam == 'digits':
        return _digits_witness()
    return _sf17(fam, prop)


_fw18 = find_witness


def find_witness(o, rep):  # noqa: F811
    if o.get('unit') == 'digits' or rep.get('property') == 'C05':
        w = _digits_witness()
        if w:
            return w
    return _fw18(o, rep)


_rp18 = replay


def replay(rep):  # noqa: F811
    w = rep.get('replay') or {}
    if w.get('replayer') == 'digits':
        if build_core() != 0:
            return 0
        i = rep['input']
        (ln, text, raw) = run_queries([i['query']])[0]
        print('> ' + i['query'])
        print(text)
        print('expected: ' + i['expected'])
        w2 = _digits_witness()
        bad = bool(w2 and w2['input']['query'] == i['query'])
        print('replay: %s' % ('violation reproduced on the real code' if bad else 'not reproduced'))
        return 1 if bad else 0
    return _rp18(rep)


# ---- precedence (C01/C11): unparenthesised forms against their fully parenthesised reading in the manual ----
_PREC_PAIRS = [
    ('A * B mod C', '(A * B) mod C'), ('A mod B * C', '(A mod B) * C'), ('A * B << C', '(A * B) << C'), ('A << B * C', '(A << B) * C'), ('A + B << C', 'A + (B << C)'),
    ('A - B >> C', 'A - (B >> C)'), ('A / B / C', '(A / B) / C'), ('A / B * C', '(A / B) * C'), ('A * B / C', '(A * B) / C'), ('A - B - C', '(A - B) - C'), ('A - B + C', '(A - B) + C'),
    ('A ^ B ^ 2', 'A ^ (B ^ 2)'), ('A | B C', '(A | B) C'), ('A | B ^ 2', 'A | (B ^ 2)'), ('- A ^ 2', '(- A) ^ 2'), ('A B ^ 2', 'A (B ^ 2)'), ('A / B C', 'A / (B C)'), ('A B / C D', '(A B) / (C D)'),
    ('A + B * C', 'A + (B * C)'), ('A * B + C', '(A * B) + C'), ('A and B xor C', '(A and B) xor C'), ('A or B and C', '(A or B) and C'), ('A mod B mod C', '(A mod B) mod C'),
    ('A xor B + C', '(A xor B) + C'), ('A + B mod C', 'A + (B mod C)'), ('A B mod C', '(A B) mod C'), ('A mod B C', 'A mod (B C)'), ('A * B C', 'A * (B C)'), ('A B * C', '(A B) * C'),
    ('A % B', '(A %) B'), ('A ^ 2 %', 'A ^ (2 %)'), ('A / B | C', 'A / (B | C)'), ('A | B / C', '(A | B) / C'), ('2 ^ - A ^ 2', '2 ^ ((- A) ^ 2)'), ('sqrt A ^ 2', 'sqrt(A ^ 2)'), ('sqrt A B', '(sqrt(A)) B'),
    ('A << B >> C', '(A << B) >> C'), ('A << B + C', '(A << B) + C'), ('A / B mod C', '(A / B) mod C'), ('A mod B / C', '(A mod B) / C'), ('A - B * C - D', '(A - (B * C)) - D'),
]
_PREC_VALUES = [{'A': '7', 'B': '3', 'C': '2', 'D': '5'}, {'A': '12', 'B': '5', 'C': '3', 'D': '2'}, {'A': '9', 'B': '4', 'C': '7', 'D': '11'}]


def _precedence_witness():
    if build_core() != 0:
        return None
    import re as _re3
    lines = []
    for a, b in _PREC_PAIRS:
        for vals in _PREC_VALUES:
            fa = _re3.sub(r'[ABCD]', lambda m: vals[m.group(0)], a)
            fb = _re3.sub(r'[ABCD]', lambda m: vals[m.group(0)], b)
            lines.append((a, b, fa, fb))
    res = run_queries([x for t in lines for x in (t[2], t[3])])
    for i, (a, b, fa, fb) in enumerate(lines):
        ra, rb = res[2 * i], res[2 * i + 1]
        ka = ra[2] if ra[2] is not None else ra[1].splitlines()[0][:60] if ra[1] else ''
        kb = rb[2] if rb[2] is not None else rb[1].splitlines()[0][:60] if rb[1] else ''
        if (ra[2] is None) != (rb[2] is None) or (ra[2] is not None and _norm_raw(ra[2]) != _norm_raw(rb[2])):
            return {'replayer': 'precedence', 'input': {'query': fa, 'expected': 'the same value as `%s` (the manual reads `%s` as `%s`)' % (fb, a, b)}, 'output': ra[1],
                    'why': '`%s` evaluates to %s but `%s` to %s' % (fa, ka, fb, kb), 'cmd': '%s %r %r' % (QUERY_BIN, fa, fb)}
    return None


_sf19 = search_family


def search_family(fam, prop):  # noqa: F811
    if fam == 'precedence':
        return _precedence_witness()
    return _sf19(fam, prop)


_fw20 = find_witness


def find_witness(o, rep):  # noqa: F811
    slot = o.get('slot') or ''
    if slot.startswith('parse_') or o.get('unit') == 'parser':
        w = _precedence_witness()
        if w:
            return w
    return _fw20(o, rep)


_rp20 = replay


def replay(rep):  # noqa: F811
    w = rep.get('replay') or {}
    if w.get('replayer') == 'precedence':
        if build_core() != 0:
            return 0
        i = rep['input']
        (ln, text, raw) = run_queries([i['query']])[0]
        print('> ' + i['query'])
        print(text)
        print('expected: ' + i['expected'])
        w2 = _precedence_witness()
        bad = bool(w2 and w2['input']['query'] == i['query'])
        print('replay: %s' % ('violation reproduced on the real code' if bad else 'not reproduced'))
        return 1 if bad else 0
    return _rp20(rep)


# ---- roundtrip (C11): print / re-parse of every producible tree up to depth 3 (bounded stand-in / replay) ----
ROUNDTRIP_BIN = os.path.join(WORK, 'replay-core-target', 'release', 'vx-replay-roundtrip')


def _roundtrip_witness():
    if build_core() != 0:
        return None
    rc, so, se, dt = run([ROUNDTRIP_BIN, '--deep'], timeout=300)
    if rc == 0 and 'ROUNDTRIP ok' in so:
        return None
    line = ([l for l in so.splitlines() if l.startswith('FAIL')] or [one_line(so + se, 300)])[0]
    import re as _re4
    m = _re4.search(r'input `(.*?)` printed `(.*?)` reply `(.*?)` reparsed `(.*?)`', line)
    inp = m.group(1) if m else line
    return {'replayer': 'roundtrip', 'input': {'query': inp, 'expected': 'the printed text parses back to the same tree'}, 'output': line,
            'why': 'the expression `%s` does not come back from its printed form: %s' % (inp, one_line(line, 300)), 'cmd': '%s --deep' % ROUNDTRIP_BIN}


_sf21 = search_family


def search_family(fam, prop):  # noqa: F811
    if fam == 'roundtrip':
        return _roundtrip_witness()
    return _sf21(fam, prop)


_fw22 = find_witness


def find_witness(o, rep):  # noqa: F811
    if o.get('unit') == 'display' or rep.get('property') == 'C11':
        w = _roundtrip_witness()
        if w:
            return w
    return _fw22(o, rep)


_rp22 = replay


def replay(rep):  # noqa: F811
    w = rep.get('replay') or {}
    if w.get('replayer') == 'roundtrip':
        w2 = _roundtrip_witness()
        print(w2['output'] if w2 else 'ROUNDTRIP ok')
        print('replay: %s' % ('violation reproduced on the real code' if w2 else 'not reproduced'))
        return 1 if w2 else 0
    return _rp22(rep)


# ---- pretty (C06): every shown number read back through Rink itself (bounded stand-in / replay) ----
PRETTY_BIN = os.path.join(WORK, 'replay-core-target', 'release', 'vx-replay-pretty')
known_hits = {}


def _known_entries(prop, obligation_prefix):
    try:
        d = json.load(open(os.path.join(ROOT, 'known_findings.json')))
    except Exception:
        return []
    return [k for k in d.get('findings', []) if k.get('property') == prop and k.get('status') == 'known'
            and k.get('obligation', '').startswith(obligation_prefix) and k.get('match')]


def _pretty_run(extra_lines=None, deep=False):
    if build_core() != 0:
        return None, 'replay build failed'
    args = [PRETTY_BIN, '--sweep-deep' if deep else '--sweep']
    if extra_lines:
        args.append('--stdin')
    import subprocess as _sp
    t0 = time.time()
    p = _sp.run(args, input='\n'.join(extra_lines or []), capture_output=True, text=True, timeout=3000)
    return p.stdout, None


def _pretty_witness(prop='C06', deep=False):
    import re as _re5
    out, err = _pretty_run(deep=deep)
    if out is None:
        return None
    fails = [l for l in out.splitlines() if l.startswith('FAIL ')]
    summary = ([l for l in out.splitlines() if l.startswith('PRETTY ')] or [''])[0]
    known = _known_entries('C06', 'bounded::pretty#')
    hits = []
    other = []
    for l in fails:
        for k in known:
            if _re5.search(k['match'], l):
                if k['obligation'] not in hits:
                    hits.append(k['obligation'])
                break
        else:
            other.append(l)
    # the listed findings belong to C06; under another property (C03 runs this family too) they are only filtered out
    known_hits['pretty'] = hits if prop == 'C06' else []
    if not summary:
        return {'replayer': 'pretty', 'input': {'query': '(sweep)'}, 'output': one_line(out, 400), 'why': 'the read-back sweep did not finish: ' + one_line(out[-400:], 300), 'cmd': PRETTY_BIN}
    if not other:
        return None
    l = other[0]
    q = l[5:].split(' :: ')[0]
    return {'replayer': 'pretty', 'input': {'query': q, 'expected': 'the shown numeral x factor x unit, read back by Rink, equals the quantity'},
            'output': l, 'others': other[1:20], 'n_failures': len(other),
            'why': one_line(l[5:], 400), 'cmd': 'echo %r | %s --stdin' % (q, PRETTY_BIN)}


_sf23 = search_family


def search_family(fam, prop):  # noqa: F811
    if fam == 'pretty':
        return _pretty_witness(prop, deep=(os.environ.get('VERIF_TIER') == 'thorough'))
    return _sf23(fam, prop)


_fw24 = find_witness


def find_witness(o, rep):  # noqa: F811
    if o.get('unit') == 'pretty' or rep.get('property') == 'C06':
        w = _pretty_witness('C06')
        if w:
            return w
    return _fw24(o, rep)


_rp24 = replay


def replay(rep):  # noqa: F811
    w = rep.get('replay') or {}
    if w.get('replayer') == 'pretty':
        if build_core() != 0:
            return 2
        import subprocess as _sp
        p = _sp.run([PRETTY_BIN, '--stdin'], input=w['input']['query'] + '\n', capture_output=True, text=True, timeout=600)
        print(p.stdout)
        bad = 'FAIL ' in p.stdout
        print('replay: %s' % ('violation reproduced on the real code' if bad else 'not reproduced'))
        return 1 if bad else 0
    return _rp24(rep)


# ---- scalewords (C10): every spelling of a temperature scale reads as that scale (witness search for the lexer's word arm) ----
_SCALE_WORDS = [['degC', '°C', 'celsius', '℃'], ['degF', '°F', 'fahrenheit', '℉'], ['degRé', '°Ré', 'degRe', '°Re', 'réaumur', 'reaumur'],
                ['degRø', '°Rø', 'degRo', '°Ro', 'rømer', 'romer'], ['degDe', '°De', 'delisle'], ['degN', '°N', 'degnewton']]


def _scalewords_witness():
    if build_core() != 0:
        return None
    seen = {}
    for group in _SCALE_WORDS:
        ref = None
        for w in group:
            for q in ('10 %s' % w, '300 kelvin -> %s' % w):
                (ln, text, raw) = run_queries([q])[0]
                first = (text.splitlines() or [''])[0]
                key = q.replace(w, '<scale>')
                if ref is None or key not in ref:
                    ref = ref or {}
                    ref[key] = (w, first)
                elif ref[key][1] != first:
                    return {'replayer': 'scalewords', 'input': {'query': q, 'expected': 'the same reply as with `%s`: %s' % (ref[key][0], ref[key][1])},
                            'output': text, 'why': '`%s` gives %r but `%s` gives %r: two spellings of one scale disagree' % (q, first, ref[key][0], ref[key][1]),
                            'cmd': '%s %r' % (QUERY_BIN, q)}
        # and different scales give different readings of 10
        k = ref.get('10 <scale>')
        if k:
            if k[1] in seen and not k[1].startswith('ERR'):
                return {'replayer': 'scalewords', 'input': {'query': '10 %s' % k[0], 'expected': 'a reading different from `10 %s`' % seen[k[1]]},
                        'output': k[1], 'why': 'two different scales give the same reading of 10', 'cmd': '%s %r' % (QUERY_BIN, '10 %s' % k[0])}
            seen[k[1]] = k[0]
    return None


_sf25 = search_family


def search_family(fam, prop):  # noqa: F811
    if fam == 'scalewords':
        return _scalewords_witness()
    return _sf25(fam, prop)


_fw26 = find_witness


def find_witness(o, rep):  # noqa: F811
    if (o.get('slot') or '') == 'TokenIterator::next::word':
        w = _scalewords_witness()
        if w:
            return w
    return _fw26(o, rep)


_rp26 = replay


def replay(rep):  # noqa: F811
    w = rep.get('replay') or {}
    if w.get('replayer') == 'scalewords':
        w2 = _scalewords_witness()
        print(w2['why'] if w2 else 'all spellings agree')
        print('replay: %s' % ('violation reproduced on the real code' if w2 else 'not reproduced'))
        return 1 if w2 else 0
    return _rp26(rep)


# ---- funcdims (C02): which dimensionalities the functions accept and return (witness search for the func! bodies) ----
_FUNC_CASES = [
    # (query, expected dims as 'name:power,..' or None for an error)
    ('sin(2)', ''), ('sin(1 radian)', ''), ('sin(1 radian^2)', None), ('sin(1 radian^-1)', None), ('sin(1 radian^3)', None), ('sin(1 m)', None), ('sin(1 radian m)', None),
    ('cos(2)', ''), ('cos(1 radian)', ''), ('cos(1 radian^2)', None), ('cos(1 / radian)', None), ('cos(1 s)', None),
    ('tan(2)', ''), ('tan(1 radian)', ''), ('tan(1 radian^2)', None), ('tan(1 radian^-2)', None), ('tan(1 kg)', None),
    ('asin(0.5)', 'radian:1'), ('asin(0.5 radian)', None), ('asin(0.5 m)', None),
    ('acos(0.5)', 'radian:1'), ('acos(0.5 radian)', None), ('atan(0.5)', 'radian:1'), ('atan(0.5 radian^2)', None), ('atan(1 m)', None),
    ('atan2(1 m, 2 m)', 'radian:1'), ('atan2(1 m, 2 s)', None), ('atan2(1, 2 radian)', None), ('atan2(1, 2)', 'radian:1'),
    ('hypot(3 m, 4 m)', 'm:1'), ('hypot(5 m^5, 4 s^7)', None), ("hypot(3 'apple', 4 'pear')", None), ("atan2(3 'apple', 2 'apple'^2)", None), ('atan2(5 m^5, 4 s^7)', None), ('hypot(3 m^5, 4 m^5)', 'm:5'), ('(3 m)^0', ''), ('(3 m)^0 + 1', ''), ('3661.5 s -> hour;min;meter', None), ('1500.5 m -> km;m;s', None), ('hypot(3 m, 4 s)', None), ('hypot(3, 4 radian)', None), ('hypot(3 m^2, 4 m^2)', 'm:2'),
    ('sqrt(4 m^2)', 'm:1'), ('sqrt(4 m^3)', None), ('sqrt(4 m^2 / s^4)', 'm:1,s:-2'), ('sqrt(4 radian^2)', 'radian:1'),
]


def _funcdims_witness():
    if build_core() != 0:
        return None
    for q, want in _FUNC_CASES:
        (ln, text, raw) = run_queries([q])[0]
        first = (text.splitlines() or [''])[0]
        why = None
        if text.startswith('PANIC') or text.startswith('TIMEOUT'):
            why = 'the query panics or hangs: %s' % first
        elif want is None:
            if not text.startswith('ERR'):
                why = 'expected an error (dimensionality not accepted), got %r' % first
        else:
            if text.startswith('ERR') or raw is None:
                why = 'expected a number of dimensionality {%s}, got %r' % (want, first)
            else:
                dims = ','.join(sorted(x.strip() for x in (raw.split(' | ') + [''])[1].split(',') if x.strip()))
                if dims != ','.join(sorted(x for x in want.split(',') if x)):
                    why = 'expected the dimensionality {%s}, got {%s}' % (want, dims)
        if why:
            return {'replayer': 'funcdims', 'input': {'query': q, 'expected': 'error' if want is None else 'dimensionality {%s}' % want}, 'output': text, 'why': why,
                    'cmd': '%s %r' % (QUERY_BIN, q)}
    return None


_sf27 = search_family


def search_family(fam, prop):  # noqa: F811
    if fam == 'funcdims':
        return _funcdims_witness()
    return _sf27(fam, prop)


_fw28 = find_witness


def find_witness(o, rep):  # noqa: F811
    if (o.get('slot') or '').startswith('func::'):
        w = _funcdims_witness()
        if w:
            return w
    return _fw28(o, rep)


_rp28 = replay


def replay(rep):  # noqa: F811
    w = rep.get('replay') or {}
    if w.get('replayer') == 'funcdims':
        w2 = _funcdims_witness()
        print(w2['why'] if w2 else 'all function cases as expected')
        print('replay: %s' % ('violation reproduced on the real code' if w2 else 'not reproduced'))
        return 1 if w2 else 0
    return _rp28(rep)


# ---- clockdays (C04): time-of-day literals with a named zone on the days the clocks change (history = the context's clock) ----
_CLOCK_DAYS = [(1773000000, 'US/Pacific'), (1793563200, 'US/Pacific'), (1774814400, 'Europe/Berlin'), (1792958400, 'Europe/Berlin'),
               (1773000000, 'America/New_York'), (1793563200, 'America/New_York'), (1774814400, 'Europe/London'), (1792958400, 'Europe/London')]


def _clockdays_witness():
    if build_core() != 0:
        return None
    for now, tz in _CLOCK_DAYS:
        lines = ['#%02d:%02d %s#' % (h, m, tz) for h in (0, 1, 2, 3, 23) for m in (0, 30, 59)] + ['#%02d:30:15 %s#' % (h, tz) for h in (1, 2)] + ['#2:30 am %s#' % tz, '#1:30 am %s#' % tz]
        rc, so, se, dt = run([QUERY_BIN, '--now', str(now)] + lines, timeout=60)
        bad = [l for l in so.splitlines() if l.startswith('PANIC')]
        if bad or rc == 124:
            # find the line
            cur = None
            for l in so.splitlines():
                if l.startswith('> '):
                    cur = l[2:]
                if l.startswith('PANIC'):
                    break
            return {'replayer': 'clockdays', 'input': {'query': cur, 'now_unix': now, 'expected': 'a reply or an error value'}, 'output': one_line(so[-600:], 400),
                    'why': 'with the clock at unix time %d (a day on which %s changes its clocks) the literal %s makes the real evaluator panic: %s' % (now, tz, cur, (bad or ['timeout'])[0]),
                    'cmd': '%s --now %d %r' % (QUERY_BIN, now, cur)}
    return None


_sf29 = search_family


def search_family(fam, prop):  # noqa: F811
    if fam == 'clockdays':
        return _clockdays_witness()
    return _sf29(fam, prop)


_rp29 = replay


def replay(rep):  # noqa: F811
    w = rep.get('replay') or {}
    if w.get('replayer') == 'clockdays':
        if build_core() != 0:
            return 2
        i = w['input']
        rc, so, se, dt = run([QUERY_BIN, '--now', str(i['now_unix']), i['query']], timeout=60)
        print(so)
        bad = 'PANIC' in so
        print('replay: %s' % ('violation reproduced on the real code' if bad else 'not reproduced'))
        return 1 if bad else 0
    return _rp29(rep)


# ---- exactcases (C01): compound expressions whose exact value is known independently (python Fractions), chosen so that
# intermediate results feed operators that look at their representation (integrality, reducedness, sign, size) ----
def _exact_cases():
    F = _F
    cases = [
        # sums of fractions with equal denominators feeding operators that need an integer
        ('2^(1|2 + 1|2)', F(2)), ('2^(3|4 + 1|4)', F(2)), ('1 << (0.5 + 0.5)', F(2)), ('8 >> (1.5 + 1.5)', F(1)), ('(3|4 + 1|4) and 1', F(1)),
        ('(0.1 + 0.4) * 2', F(1)), ('(7|10 - 2|10) * 2', F(1)), ('(1|3 + 2|3) xor 3', F(2)), ('(5|2 - 1|2) or 1', F(3)), ('(0.5 + 0.5) mod 1', F(0)),
        ('7 mod (0.5 + 0.5)', F(0)), ('10^(1.5 - 0.5)', F(10)), ('(2|4)^2', F(1, 4)), ('(6|4 + 2|4) / 2', F(1)),
        # remainders of non-integers and signs
        ('7.5 mod 2', F(3, 2)), ('10.25 mod 3', F(5, 4)), ('(-25|2) mod 1', F(-1, 2)), ('-7 mod 3', F(-1)), ('7 mod -3', F(1)), ('7.5 mod 0.5', F(0)),
        ('22|7 mod 1|7', F(0)), ('22|7 mod 1', F(1, 7)), ('1500 mod 1000', F(500)), ('-0.75 mod 0.5', F(-1, 4)),
        # bit operators only on integers
        ('2.5 and 3', 'ERR'), ('7|2 xor 1', 'ERR'), ('(-2.5) and 3', 'ERR'), ('1e-1 xor 0xff', 'ERR'), ('3 or 0.5', 'ERR'), ('6 and 3', F(2)), ('6 or 3', F(7)),
        ('6 xor 3', F(5)), ('-6 and 3', F(2)), ('(2^70 + 5) and 7', F(5)), ('2^70 or 1', F(2**70 + 1)), ('1 << 0.5', 'ERR'), ('1 >> 1|3', 'ERR'),
        # radix literals around the machine word sizes
        ('0xffffffffffffffff', F(2**64 - 1)), ('0x8000000000000000', F(2**63)), ('0x7fffffffffffffff', F(2**63 - 1)), ('0xffffffffffffffff + 1', F(2**64)),
        ('0x10000000000000000', F(2**64)), ('0o1777777777777777777777', F(2**64 - 1)), ('0o1000000000000000000000', F(2**63)),
        ('0b' + '1' * 64, F(2**64 - 1)), ('0b1' + '0' * 63, F(2**63)), ('0xffffffff', F(2**32 - 1)), ('0x100000000', F(2**32)), ('0x80000000', F(2**31)),
        ('0xdeadbeefcafebabe1234', F(0xdeadbeefcafebabe1234)), ('-0x8000000000000000', F(-2**63)), ('0xff ^ 2', F(255**2)),
        # `|` binds tighter than `^`'s right operand only through the ladder: a^b|c is (a^b)/c ... and neighbours
        ('2^3|4', F(2)), ('2^4|2', F(8)), ('6^4|2', F(648)), ('2^3^2|4', F(128)), ('1|2^2', F(1, 4)), ('3|4 5', F(15, 4)), ('2 3|4', F(3, 2)), ('1|2 3|4', F(3, 8)),
        ('2^-1|2', F(1, 4)), ('4|2^2', F(1)), ('-1|2', F(-1, 2)), ('1|-2', F(-1, 2)), ('10|4 / 5', F(1, 2)), ('10 / 4|5', F(25, 2)), ('2|3 * 3|2', F(1)),
        # long exact chains
        ('1|3 + 1|3 + 1|3', F(1)), ('0.1 + 0.2 - 0.3', F(0)), ('1e30 + 1 - 1e30', F(1)), ('(1|7)^3 * 343', F(1)), ('2^64 / 2^62', F(4)), ('(2|3)^-2', F(9, 4)),
        ('1.5e3 / 3e2', F(5)), ('0.000001 * 1e6', F(1)), ('123456789 * 987654321', F(123456789 * 987654321)), ('-(-(-3))', F(-3)), ('--3', F(3)), ('2 - -3', F(5)),
    ]
    return cases


def _exactcases_witness():
    if build_core() != 0:
        return None
    for q, want in _exact_cases():
        (ln, text, raw) = run_queries([q])[0]
        first = (text.splitlines() or [''])[0]
        bad = None
        if text.startswith('PANIC') or text.startswith('TIMEOUT'):
            bad = first
        elif want == 'ERR':
            if not text.startswith('ERR'):
                bad = 'expected an error, got: ' + first
        else:
            w = '%d/%d' % (want.numerator, want.denominator)
            if raw is None:
                bad = 'expected the exact value %s, got: %s' % (w, first)
            else:
                got = raw.split(' | ')[0].strip().rstrip(' |')
                if got != w:
                    bad = 'expected the exact value %s, got RAW %s' % (w, raw)
        if bad:
            return {'replayer': 'query', 'input': {'query': q, 'expected': 'ERR' if want == 'ERR' else str(want)}, 'output': text, 'why': bad, 'cmd': '%s %r' % (QUERY_BIN, q)}
    return None


_sf30 = search_family


def search_family(fam, prop):  # noqa: F811
    if fam == 'exactcases':
        return _exactcases_witness()
    return _sf30(fam, prop)


_fw31 = find_witness


def find_witness(o, rep):  # noqa: F811
    w = _fw31(o, rep)
    if w:
        return w
    if rep.get('property') == 'C01' or o.get('unit') in ('bigwrap', 'arith', 'parser', 'lexer'):
        return _exactcases_witness()
    return None


# ---- temperature (C10): the six scales against the textbook affine formulas, exactly (bounded stand-in / witness) ----
def _temp_to_kelvin(scale, x):
    F = _F
    return {'degC': x + F(27315, 100), 'degF': (x + F(45967, 100)) * F(5, 9), 'degRe': x * F(5, 4) + F(27315, 100),
            'degRo': (x - F(15, 2)) * F(40, 21) + F(27315, 100), 'degDe': F(37315, 100) - x * F(2, 3), 'degN': x * F(100, 33) + F(27315, 100)}[scale]


def _temp_from_kelvin(scale, k):
    F = _F
    return {'degC': k - F(27315, 100), 'degF': k * F(9, 5) - F(45967, 100), 'degRe': (k - F(27315, 100)) * F(4, 5),
            'degRo': (k - F(27315, 100)) * F(21, 40) + F(15, 2), 'degDe': (F(37315, 100) - k) * F(3, 2), 'degN': (k - F(27315, 100)) * F(33, 100)}[scale]


def _temperature_witness():
    if build_core() != 0:
        return None
    F = _F
    scales = ['degC', 'degF', 'degRe', 'degRo', 'degDe', 'degN']
    xs = [F(0), F(100), F(-40), F(1, 3), F(75, 2), F(80), F(-150)]

    def fail(q, text, why):
        return {'replayer': 'query', 'input': {'query': q, 'expected': why}, 'output': text, 'why': why, 'cmd': '%s %r' % (QUERY_BIN, q)}
    for s in scales:
        for x in xs:
            lit = '(%d/%d)' % (x.numerator, x.denominator)
            q = '%s %s' % (lit, s)
            (ln, text, raw) = run_queries([q])[0]
            want = _temp_to_kelvin(s, x)
            if raw is None or raw.split(' | ')[0].strip() != '%d/%d' % (want.numerator, want.denominator):
                return fail(q, text, 'expected the absolute temperature %s K, got %s' % (want, raw or (text.splitlines() or [''])[0]))
            for t in scales:
                q2 = '%s %s -> %s' % (lit, s, t)
                (ln, text, raw) = run_queries([q2])[0]
                want2 = _temp_from_kelvin(t, want)
                if raw is None or raw.split(' | ')[0].strip() != '%d/%d' % (want2.numerator, want2.denominator):
                    return fail(q2, text, 'expected %s on the %s scale, got %s' % (want2, t, raw or (text.splitlines() or [''])[0]))
    # refusals: dimensioned operands and compound targets
    for q in ['(5 m) degC', '5 kelvin degF', '300 K -> degC meter', '300 K -> degC / 2', '300 K -> 2 degC', '300 K -> degC degF', '3 m -> degC']:
        (ln, text, raw) = run_queries([q])[0]
        if not text.startswith('ERR'):
            return fail(q, text, 'expected a refusal, got: ' + (text.splitlines() or [''])[0])
    return None


_sf40 = search_family


def search_family(fam, prop):  # noqa: F811
    if fam == 'temperature':
        return _temperature_witness()
    if fam == 'datecases':
        return _datecases_witness()
    return _sf40(fam, prop)


# ---- datecases (C14): date arithmetic across clock changes, zones against offsets, sub-second literals ----
def _datecases_witness():
    if build_core() != 0:
        return None

    def fail(q, text, why):
        return {'replayer': 'query', 'input': {'query': q, 'expected': why}, 'output': text, 'why': why, 'cmd': '%s %r' % (QUERY_BIN, q)}
    # (query, expected exact seconds as 'n/d')
    exact = [
        ('(#2021-03-13 12:00:00 US/Eastern# + 1 day) - #2021-03-13 12:00:00 US/Eastern#', '86400/1'),
        ('(#2021-11-06 12:00:00 US/Eastern# + 1 day) - #2021-11-06 12:00:00 US/Eastern#', '86400/1'),
        ('(#2021-03-27 12:00:00 Europe/Berlin# + 36 hour) - #2021-03-27 12:00:00 Europe/Berlin#', '129600/1'),
        ('(#2021-10-30 12:00:00 Europe/Berlin# - 36 hour) - #2021-10-30 12:00:00 Europe/Berlin#', '-129600/1'),
        ('#2020-01-01 12:00:00 +00:00# - #2020-01-01 12:00:00 Asia/Tokyo#', '32400/1'),
        ('#2020-01-01 12:00:00 Asia/Tokyo# - #2020-01-01 12:00:00 +00:00#', '-32400/1'),
        ('#2021-03-15 00:00:00 US/Eastern# - #2021-03-13 00:00:00 US/Eastern#', '169200/1'),
        ('#2021-11-08 00:00:00 US/Eastern# - #2021-11-06 00:00:00 US/Eastern#', '176400/1'),
        ('#2020-01-01 00:00:00 US/Pacific# - #2020-01-01 00:00:00 -08:00#', '0/1'),
        ('#2020-07-01 00:00:00 US/Pacific# - #2020-07-01 00:00:00 -07:00#', '0/1'),
        ('#2020-01-01 00:00:00.5136# - #2020-01-01 00:00:00#', '321/625'),
        ('#2020-01-01 00:00:00.5186# - #2020-01-01 00:00:00#', '2593/5000'),
        ('#2020-01-01 00:00:00.0319# - #2020-01-01 00:00:00#', '319/10000'),
        ('#2020-01-01 00:00:00.123456789# - #2020-01-01 00:00:00#', '123456789/1000000000'),
        ('#2020-01-01 00:00:00.000000001# - #2020-01-01 00:00:00#', '1/1000000000'),
        ('#2020-01-01 00:00:00.7# - #2020-01-01 00:00:00#', '7/10'),
        ('#2020-01-01 00:00:00.07# - #2020-01-01 00:00:00.03#', '1/25'),
        ('(#2020-02-28 12:00:00# + 2 day) - #2020-03-01 12:00:00#', '0/1'),
        ('(#2020-01-01 00:00:00# + 1.5 s) - #2020-01-01 00:00:00#', '3/2'),
        ('(#2020-01-01 00:00:00# - 1|3 ms) + 1|3 ms - #2020-01-01 00:00:00#', None),
    ]
    for q, want in exact:
        if want is None:
            continue
        q = '(%s) -> s' % q
        (ln, text, raw) = run_queries([q])[0]
        if raw is None or raw.split(' | ')[0].strip() != want:
            return fail(q, text, 'expected exactly %s s, got %s' % (want, raw or (text.splitlines() or [''])[0]))
    return None
