"""Witness search / replay against the real code. Never decides anything: it only
turns a failed obligation into a concrete failing input when one is easy to find."""
import os, json
from .common import *

ALLOC_DIR = os.path.join(ROOT, 'replay', 'alloc')
ALLOC_BIN = os.path.join(WORK, 'replay-alloc-target', 'release', 'vx-replay-alloc')


def build_all():
    rc, so, se, dt = run(['cargo', 'build', '--release', '--offline'], cwd=ALLOC_DIR,
                         env=env_offline({'CARGO_TARGET_DIR': os.path.join(WORK, 'replay-alloc-target')}), timeout=900)
    if rc != 0:
        print('replay/alloc build failed:\n' + se[-800:])
    return rc


def _alloc_try(op, used, mx, limit, size, align, new):
    # always rebuild: the binary includes /repo's current alloc.rs
    build_all()
    rc, so, se, dt = run([ALLOC_BIN, op] + [str(x) for x in (used, mx, limit, size, align, new)], timeout=60)
    return rc, so


def _alloc_witness(o):
    h = o['slot'] or ''
    op = 'realloc' if 'realloc' in h else 'dealloc' if 'dealloc' in h else 'alloc_zeroed' if 'zeroed' in h else 'alloc' if 'alloc' in h else None
    if op is None or 'schedule' in h or 'admin' in h:
        return None
    cands = []
    ce = o.get('counterexample') or []
    if len(ce) >= 5:
        used, mx, limit, size, align = ce[0:5]
        new = ce[5] if op == 'realloc' and len(ce) >= 6 else 0
        cands.append((used, mx, limit, size, align, new))
        # same state, feasible sizes
        for (s, n) in ((16, 4096), (4096, 16), (64, 64), (1, 1)):
            cands.append((used, mx, limit, s, 8, n))
    for (used, mx, limit) in ((100, 100, 1 << 20), (0, 0, 1 << 20), (100, 100, 100), (1 << 19, 1 << 19, 1 << 20), (16, 16, (1 << 64) - 1)):
        for (s, n) in ((16, 4096), (4096, 16), (64, 64), (16, 1 << 21)):
            if op in ('dealloc', 'realloc') and s > used:
                continue
            cands.append((used, mx, limit, s, 8, n))
    check = o.get('check')
    for c in cands:
        if op in ('dealloc', 'realloc') and c[3] > c[0]:
            continue
        rc, so = _alloc_try(op, *c)
        if rc == 1 and (check is None or ('VIOLATED ' + check) in so):
            return {'replayer': 'alloc', 'input': {'op': op, 'used': c[0], 'max': c[1], 'limit': c[2], 'size': c[3], 'align': c[4], 'new': c[5]},
                    'output': so, 'cmd': '%s %s %s' % (ALLOC_BIN, op, ' '.join(str(x) for x in c))}
    return None


def find_witness(o, rep):
    if o.get('unit') == 'alloc':
        return _alloc_witness(o)
    return None


def replay(rep):
    w = rep.get('replay') or {}
    if w.get('replayer') == 'alloc':
        i = rep['input']
        rc, so = _alloc_try(i['op'], i['used'], i['max'], i['limit'], i['size'], i['align'], i['new'])
        print(so)
        print('replay: %s' % ('violation reproduced on the real code' if rc == 1 else 'not reproduced (rc=%d)' % rc))
        return 1 if rc == 1 else 0
    print('no replayer for this obligation')
    return 0
