"""Kani back end: loop-free full-domain harnesses on the real code (DESIGN.md 5.19)."""
import os, re, time
from .common import *


def _harness_names(crate_dir):
    names, asserts = [], {}
    for root, _, files in os.walk(os.path.join(crate_dir, 'src')):
        for f in files:
            if f.endswith('.rs'):
                txt = open(os.path.join(root, f)).read()
                for m in re.finditer(r'#\[kani::proof\][^{]*?fn\s+(\w+)\s*\(', txt, re.S):
                    names.append(m.group(1))
    return names


def parse_terse(out):
    """-> {harness: {'failed': n, 'total': n, 'covers_sat': n, 'covers': n, 'failed_checks': [...], 'ok': bool, 'time_s': float}}"""
    cur = {}
    res = {}
    block_thread = None
    lines = out.splitlines()
    last_h = None
    for ln in lines:
        m = re.match(r'^(?:Thread (\d+): )?Checking harness ([\w:]+)\.\.\.', ln)
        if m:
            th = m.group(1) or '0'
            cur[th] = m.group(2)
            res.setdefault(m.group(2), {'failed_checks': [], 'stubs': []})
            last_h = m.group(2)
            continue
        m = re.match(r'^Thread (\d+):\s*(.*)$', ln)
        if m:
            block_thread = m.group(1)
            rest = m.group(2)
            sm = re.match(r'- Stub: (.*)$', rest.strip())
            if sm and block_thread in cur:
                res[cur[block_thread]]['stubs'].append(sm.group(1))
            continue
        sm = re.match(r'^\s*- Stub: (.*)$', ln)
        if sm and last_h:
            res[last_h]['stubs'].append(sm.group(1))
            continue
        h = cur.get(block_thread) if block_thread is not None else last_h
        if h is None:
            continue
        e = res[h]
        m = re.search(r'\*\* (\d+) of (\d+) failed', ln)
        if m:
            e['failed'] = int(m.group(1))
            e['total'] = int(m.group(2))
        m = re.search(r'\*\* (\d+) of (\d+) cover properties satisfied', ln)
        if m:
            e['covers_sat'] = int(m.group(1))
            e['covers'] = int(m.group(2))
        m = re.match(r'^Failed Checks: (.*)$', ln)
        if m:
            e['failed_checks'].append(m.group(1).strip())
        m = re.match(r'^VERIFICATION:- (\w+)', ln)
        if m:
            e['ok'] = (m.group(1) == 'SUCCESSFUL')
        m = re.match(r'^Verification Time: ([\d.]+)s', ln)
        if m:
            e['time_s'] = float(m.group(1))
    return res


def playback(crate_dir, target_dir, harness_path, flags):
    cmd = ['cargo', 'kani'] + flags + ['-Z', 'concrete-playback', '--concrete-playback=print', '--harness', harness_path, '--exact', '--output-format', 'terse']
    rc, so, se, dt = run(cmd, cwd=crate_dir, env=env_offline({'CARGO_TARGET_DIR': target_dir}), timeout=1800)
    out = so + se
    tests = []
    for blk in re.split(r'Concrete playback unit test for', out)[1:]:
        cm = re.search(r'/// Check for (\w+|`\w+`): "([^"]*)"', blk)
        vals = [int(x) for x in re.findall(r'^\s*// (-?\d+)(?:ul|u|l)?\s*$', blk, re.M)]
        tests.append({'check': cm.group(2) if cm else None, 'kind': (cm.group(1).strip('`') if cm else None), 'values': vals})
    return tests, ' '.join(cmd)


def run_unit(unit, cfg, tier='quick', seed=0):
    t0 = time.time()
    crate = os.path.join(ROOT, cfg['crate'])
    target = os.path.join(WORK, 'kani-%s-target' % unit)
    flags = cfg.get('flags', ['-Z', 'stubbing'])
    res = {'unit': unit, 'backend': 'kani', 'status': 'ok', 'reasons': [], 'obligations': [], 'cmds': [], 'slots': [],
           'assumptions': list(cfg.get('assumptions', [])), 'solver_s': 0.0, 'unstable': []}
    harnesses = _harness_names(crate)
    want = cfg.get('harnesses') or harnesses
    cmd = ['cargo', 'kani'] + flags + ['-j', '8', '--output-format', 'terse']
    rc, so, se, dt = run(cmd, cwd=crate, env=env_offline({'CARGO_TARGET_DIR': target}), timeout=3600)
    res['cmds'].append('VX_REPO=%s CARGO_NET_OFFLINE=true ' % REPO + ' '.join(cmd) + '   (cwd %s)' % cfg['crate'])
    out = so + '\n' + se
    res['raw_tail'] = out[-3000:]
    parsed = parse_terse(out)
    if rc not in (0, 1) or not parsed:
        res['status'] = 'undecided'
        res['reasons'].append('cargo kani failed to run (rc=%d): %s' % (rc, one_line(out[-400:], 400)))
        res['wall_s'] = time.time() - t0
        return res
    props = cfg['props']
    by_short = {h.split('::')[-1]: (h, e) for h, e in parsed.items()}
    for h in want:
        if h not in by_short:
            res['status'] = 'undecided'
            res['reasons'].append('harness %s did not run' % h)
            continue
        full, e = by_short[h]
        if 'total' not in e or 'ok' not in e:
            res['status'] = 'undecided'
            res['reasons'].append('harness %s: no result (timeout / out of memory / compile error)' % h)
            continue
        res['solver_s'] += e.get('time_s', 0.0)
        # vacuity guards: every cover must be satisfied; stubs must have been applied
        if e.get('covers', 0) == 0 or e.get('covers_sat') != e.get('covers'):
            res['status'] = 'undecided'
            res['reasons'].append('vacuity guard: harness %s: %s of %s cover properties satisfied' % (h, e.get('covers_sat'), e.get('covers')))
        need_stub = cfg.get('require_stub', {}).get(h)
        if need_stub and not any(need_stub in s.replace(' ', '') for s in e.get('stubs', [])):
            res['status'] = 'undecided'
            res['reasons'].append('vacuity guard: harness %s ran without its stub %s' % (h, need_stub))
        failed = e.get('failed_checks', [])
        n_ok = e['total'] - e['failed']
        res['obligations'].append({'id': '%s::%s::all-other-checks' % (unit, h), 'slot': h, 'props': props, 'status': 'discharged',
                                   'kind': 'kani-checks', 'count': n_ok, 'src': cfg.get('source', ''), 'unit': unit,
                                   'time_ms': e.get('time_s', 0) * 1000})
        for fc in failed:
            res['obligations'].append({'id': '%s::%s::%s' % (unit, h, fc), 'slot': h, 'props': props, 'status': 'failed',
                                       'kind': 'kani-assert', 'message': 'Kani: check `%s` FAILED in harness %s' % (fc, h),
                                       'src': cfg.get('source', ''), 'unit': unit, 'harness_path': full, 'check': fc})
        if e['failed'] > len(failed):
            res['obligations'].append({'id': '%s::%s::unnamed-check' % (unit, h), 'slot': h, 'props': props, 'status': 'failed',
                                       'kind': 'kani-builtin', 'message': 'Kani: %d failed checks, %d named' % (e['failed'], len(failed)),
                                       'src': cfg.get('source', ''), 'unit': unit, 'harness_path': full, 'check': None})
    # counterexamples for failed named checks
    for o in res['obligations']:
        if o['status'] == 'failed' and o.get('harness_path'):
            tests, pcmd = playback(crate, target, o['harness_path'], flags)
            res['cmds'].append(pcmd)
            for t in tests:
                if t['check'] == o.get('check'):
                    o['counterexample'] = t['values']
                    break
    if res['status'] != 'ok':
        # a failed named check is reported even when a vacuity guard tripped (the change that breaks
        # the property often also makes a cover unreachable); only passing results are distrusted
        for o in res['obligations']:
            if o['status'] != 'failed':
                o['status'] = 'undecided'
        if any(o['status'] == 'failed' for o in res['obligations']):
            res['reasons'] = [r for r in res['reasons'] if not r.startswith('vacuity guard: harness')] or res['reasons']
            if all(r.startswith('vacuity guard: harness') for r in res['reasons']):
                res['notes'] = res['reasons']
                res['reasons'] = []
                res['status'] = 'ok'
                for o in res['obligations']:
                    if o['status'] == 'undecided':
                        o['status'] = 'discharged'
    src = os.path.join(REPO, cfg.get('source', ''))
    if os.path.isfile(src):
        txt = open(src).read()
        res['slots'].append({'name': cfg.get('source'), 'props': props, 'file': cfg.get('source'), 'origin': cfg.get('source'),
                             'lines': [1, txt.count('\n') + 1], 'sha256': sha256(txt), 'rewrites': {}, 'functions': cfg.get('functions', [])})
    res['wall_s'] = time.time() - t0
    return res
