import json, os, subprocess, time, hashlib, re

ROOT = os.path.dirname(os.path.dirname(os.path.abspath(__file__)))
REPO = os.environ.get('VX_REPO', '/repo')
WORK = os.path.join(ROOT, 'work')
EXTRACT_BIN = os.path.join(WORK, 'extract-target', 'release', 'vx-extract')

def env_offline(extra=None):
    e = dict(os.environ)
    e['CARGO_NET_OFFLINE'] = 'true'
    e['VX_REPO'] = REPO
    if extra:
        e.update(extra)
    return e

def run(cmd, cwd=None, env=None, timeout=None):
    t0 = time.time()
    try:
        p = subprocess.run(cmd, cwd=cwd, env=env, stdout=subprocess.PIPE, stderr=subprocess.PIPE,
                           timeout=timeout, text=True, errors='replace')
        return p.returncode, p.stdout, p.stderr, time.time() - t0
    except subprocess.TimeoutExpired as ex:
        out = ex.stdout if isinstance(ex.stdout, str) else (ex.stdout or b'').decode('utf8', 'replace')
        err = ex.stderr if isinstance(ex.stderr, str) else (ex.stderr or b'').decode('utf8', 'replace')
        return 124, out, err + '\n[vx] timeout', time.time() - t0

def sha256(s):
    return hashlib.sha256(s.encode('utf8')).hexdigest()

def load_registry():
    return json.load(open(os.path.join(ROOT, 'units', 'registry.json')))

def load_known():
    p = os.path.join(ROOT, 'known_findings.json')
    if not os.path.exists(p):
        return []
    return json.load(open(p)).get('findings', [])

def one_line(s, n=100):
    s = re.sub(r'\s+', ' ', s).strip()
    return s if len(s) <= n else s[:n - 3] + '...'

def repo_head():
    rc, out, _, _ = run(['git', '-C', REPO, 'rev-parse', 'HEAD'])
    return out.strip() if rc == 0 else 'unknown'

def repo_dirty():
    rc, out, _, _ = run(['git', '-C', REPO, 'status', '--porcelain', '--untracked-files=no'])
    return bool(out.strip()) if rc == 0 else None
