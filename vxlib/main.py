import json, os, re, sys, time, shutil
from concurrent.futures import ThreadPoolExecutor
from .common import *
from . import verus, kani, replayers

TOOLS = 'verus 0.2026.09.13 (z3 via Verus), kani 0.68.0 / cbmc 6.11'


def run_unit(unit, reg, tier, seed):
    cfg = reg['units'][unit]
    if cfg['backend'] == 'verus':
        return verus.run_unit(unit, cfg, tier, seed)
    if cfg['backend'] == 'kani':
        return kani.run_unit(unit, cfg, tier, seed)
    raise SystemExit('unknown backend for unit ' + unit)


def sanitize(s):
    return re.sub(r'[^A-Za-z0-9_.-]+', '_', s)[:150].strip('_')


def cmd_setup(args):
    os.makedirs(WORK, exist_ok=True)
    rc, so, se, dt = run(['cargo', 'build', '--release', '--offline'], cwd=os.path.join(ROOT, 'tools', 'extract'),
                         env=env_offline({'CARGO_TARGET_DIR': os.path.join(WORK, 'extract-target')}), timeout=1800)
    print(se[-600:])
    if rc != 0:
        print('setup: building the extractor failed')
        return 1
    rc2 = replayers.build_all()
    print('setup: ok (extractor %.0fs)' % dt)
    return 0


def ensure_setup():
    if not os.path.exists(EXTRACT_BIN):
        cmd_setup([])
    else:
        # rebuild if sources are newer than the binary
        src = os.path.join(ROOT, 'tools', 'extract', 'src')
        newest = max(os.path.getmtime(os.path.join(src, f)) for f in os.listdir(src))
        if newest > os.path.getmtime(EXTRACT_BIN):
            cmd_setup([])


def cmd_check(args):
    prop = args[0]
    tier = os.environ.get('VERIF_TIER', 'quick')
    if '--tier' in args:
        tier = args[args.index('--tier') + 1]
    os.environ['VERIF_TIER'] = tier
    seed = int(os.environ.get('VERIF_SEED', '0') or 0)
    reg = load_registry()
    if prop not in reg['properties']:
        print('property %s is not claimed (see MANIFEST.json not_applicable)' % prop)
        return 2
    ensure_setup()
    pcfg = reg['properties'][prop]
    t0 = time.time()
    units = pcfg['units']
    with ThreadPoolExecutor(max_workers=min(8, len(units))) as ex:
        results = list(ex.map(lambda u: run_unit(u, reg, tier, seed), units))
    obligations, undecided, assumptions, cmds, slots = [], [], [], [], []
    solver_s = 0.0
    unstable = []
    for r in results:
        solver_s += r.get('solver_s', 0.0)
        cmds += r['cmds']
        unstable += r.get('unstable', [])
        for a in r.get('assumptions', []):
            if a not in assumptions:
                assumptions.append(a)
        if r['status'] != 'ok':
            for why in r['reasons']:
                undecided.append('%s: %s' % (r['unit'], why))
        for o in r['obligations']:
            if prop in o['props']:
                obligations.append(o)
            elif pcfg.get('all_slots'):
                # a totality property: every function under contract counts, for its safety obligations (callee
                # preconditions incl. unwrap / index / vx_unreachable, overflow, division, termination); a failed
                # functional clause of another property leaves this property undecided for that function
                if o['status'] == 'failed' and o.get('kind') in ('postcondition', 'invariant'):
                    undecided.append('%s: functional obligation %s fails (property %s); safety of the function is not re-established' % (r['unit'], o['id'], ','.join(o['props'])))
                else:
                    o2 = dict(o)
                    o2['props'] = list(o['props']) + [prop]
                    obligations.append(o2)
        for s in r['slots']:
            if prop in s['props'] or pcfg.get('all_slots'):
                s2 = dict(s)
                s2['unit'] = r['unit']
                slots.append(s2)
    # syntactic scans that back an assumption of the property (e.g. A-no-interior-mut for C15)
    scan_hits = []
    # A-derive: the derive lists and manual trait impls of the extracted types are the pinned ones
    try:
        from . import derives as _derives
        used = set()
        for u in units:
            ej = os.path.join(ROOT, 'work', '%s.extract.json' % u)
            if os.path.exists(ej):
                for t in json.load(open(ej)).get('types', []):
                    used.add('%s in %s' % (t.get('name'), t.get('file')))
        for dline in _derives.diff(used):
            scan_hits.append('A-derive: ' + dline)
    except Exception as e:
        undecided.append('A-derive scan crashed: %r' % e)
    for sc in pcfg.get('scans', []):
        rx = re.compile(sc['pattern'])
        for root in sc['paths']:
            for dp, dn, fn in os.walk(os.path.join(REPO, root)):
                for f in sorted(fn):
                    if not f.endswith('.rs'):
                        continue
                    path = os.path.join(dp, f)
                    in_test = False
                    for ln, line in enumerate(open(path, errors='replace'), 1):
                        if '#[cfg(test)]' in line:
                            in_test = True
                        if in_test or line.strip().startswith('//'):
                            continue
                        if rx.search(line):
                            scan_hits.append('%s: %s:%d: %s' % (sc['id'], os.path.relpath(path, REPO), ln, line.strip()[:80]))
    if scan_hits:
        for h in scan_hits[:5]:
            undecided.append('scan: the assumption no longer holds syntactically: ' + h)
        for fam in pcfg.get('scan_witness', []):
            try:
                w = replayers.search_family(fam, prop)
            except Exception as e:
                w = None
            if w:
                obligations.append({'id': 'scan::bounded-replay::%s' % fam, 'slot': None, 'props': [prop], 'status': 'failed', 'kind': 'bounded-replay',
                                    'message': 'assumption scan failed (%s); the bounded replay search found a failing history on the real code: %s' % (scan_hits[0], w.get('why')),
                                    'src': None, 'unit': 'scan', 'witness': w})
    # bounded stand-in (DESIGN 4.2): a unit the verifier could not decide (lost anchor, unsupported construct)
    # gets the bounded replay search of its witness families; a concrete failing input on the real code is a
    # violation found by a bounded check (labelled as such), anything else leaves the unit undecided.
    bounded = []
    for r in results:
        if r['status'] != 'ok':
            for fam in reg['units'][r['unit']].get('witness', []):
                try:
                    w = replayers.search_family(fam, prop)
                except Exception as e:
                    w = None
                    undecided.append('%s: bounded replay search %s crashed: %r' % (r['unit'], fam, e))
                bounded.append({'unit': r['unit'], 'family': fam, 'found': bool(w)})
                if w:
                    obligations.append({'id': '%s::bounded-replay::%s' % (r['unit'], fam), 'slot': None, 'props': [prop], 'status': 'failed',
                                        'kind': 'bounded-replay', 'message': 'the unit is undecided (%s); the bounded replay search found a failing input on the real code: %s' % (one_line('; '.join(r['reasons']), 200), w.get('why')),
                                        'src': None, 'unit': r['unit'], 'witness': w})
    # functions that cannot be brought within the verifier's reach (registry "bounded_for"): a bounded replay family
    # of the real code stands in on every run, labelled bounded and never counted as proved
    done_fams = {b['family'] for b in bounded}
    for bf in pcfg.get('bounded_for', []):
        if tier not in bf.get('tiers', ['quick', 'thorough']) or bf['family'] in done_fams:
            continue
        try:
            w = replayers.search_family(bf['family'], prop)
        except Exception as e:
            w = None
            undecided.append('bounded check %s crashed: %r' % (bf['family'], e))
        bounded.append({'unit': None, 'family': bf['family'], 'found': bool(w), 'stands_in_for': bf['functions'], 'bound': bf['bound']})
        # failures of the family that known_findings.json lists (matched by their own pattern, one obligation each)
        for kid in replayers.known_hits.pop(bf['family'], []):
            obligations.append({'id': kid, 'slot': None, 'props': [prop], 'status': 'failed', 'kind': 'bounded-replay',
                                'message': 'known finding reproduced by the bounded check %s' % bf['family'], 'src': None, 'unit': 'bounded', 'count': 0})
        if w:
            obligations.append({'id': 'bounded::%s' % bf['family'], 'slot': None, 'props': [prop], 'status': 'failed', 'kind': 'bounded-replay',
                                'message': 'bounded check (stand-in for %s, %s) found a failing input on the real code: %s' % (bf['functions'], bf['bound'], w.get('why')),
                                'src': None, 'unit': 'bounded', 'witness': w})
        else:
            obligations.append({'id': 'bounded::%s' % bf['family'], 'slot': None, 'props': [prop], 'status': 'discharged', 'kind': 'bounded-replay (not a proof)',
                                'src': None, 'unit': 'bounded', 'count': 0})
    for a in pcfg.get('assumptions', []):
        if a not in assumptions:
            assumptions.append(a)
    # de-duplicate obligations that the same slot produces in several units
    seen = {}
    for o in obligations:
        k = o['id']
        rank = {'failed': 2, 'undecided': 1, 'discharged': 0}[o['status']]
        if k not in seen or rank > {'failed': 2, 'undecided': 1, 'discharged': 0}[seen[k]['status']]:
            seen[k] = o
    obligations = list(seen.values())
    known = [k for k in load_known() if k.get('property') == prop and k.get('status') == 'known']
    known_ids = {k['obligation'] for k in known}
    n_total = 0
    n_dis = 0
    violations = []
    known_hit = []
    for o in obligations:
        c = o.get('count', 1)
        n_total += c
        if o['status'] == 'discharged':
            n_dis += c
        elif o['status'] == 'failed':
            if o['id'] in known_ids:
                known_hit.append(o)
            else:
                violations.append(o)
    # replay files + lines
    rdir = os.path.join(ROOT, 'replays', prop)
    lines = []
    unconfirmed = []
    for o in known_hit:
        k = [x for x in known if x['obligation'] == o['id']][0]
        lines.append('KNOWN-FINDING: property=%s %s %s' % (prop, o['id'], k.get('what', '')))
    for o in violations:
        os.makedirs(rdir, exist_ok=True)
        path = os.path.join(rdir, sanitize(o['id']) + '.json')
        rep = {'property': prop, 'obligation': o['id'], 'unit': o.get('unit'), 'slot': o.get('slot'), 'kind': o.get('kind'),
               'source': o.get('src'), 'verifier_message': o.get('message'), 'verifier_output': o.get('rendered') or o.get('message'),
               'failed_clause': o.get('failed_clause'), 'checked_text': o.get('text'), 'counterexample': o.get('counterexample'),
               'repo_head': repo_head(), 'input': None, 'replay': None}
        try:
            w = o.get('witness') or replayers.find_witness(o, rep)
        except Exception as e:  # the witness search never decides anything
            w = None
            rep['replay_error'] = repr(e)
        if w:
            rep['input'] = w['input']
            rep['replay'] = w
        with open(path, 'w') as fh:
            json.dump(rep, fh, indent=1)
        if o.get('adapted') and rep['input'] is None:
            # adapted mode: a helper without a contract was pulled in; an unconfirmed failure is undecided
            undecided.append('%s: obligation %s fails after adapting to helpers %s that have no contract; replay found no failing input' % (o.get('unit'), o['id'], ','.join(o.get('adapted_helpers', [])) or '(new functions)'))
            unconfirmed.append(o)
            continue
        suffix = '' if rep['input'] is not None else ' no-failing-input-found'
        lines.append('VIOLATION property=%s replay=%s%s' % (prop, path, suffix))
    shown = []
    for u in undecided:
        u1 = one_line(u, 300)
        if u1 not in shown:
            shown.append(u1)
    for u1 in shown[:6]:
        lines.append('UNDECIDED property=%s reason=%s' % (prop, u1))
    if len(shown) > 6:
        lines.append('UNDECIDED property=%s reason=... and %d more reasons (see evidence)' % (prop, len(shown) - 6))
    wall = time.time() - t0
    samples = []
    for o in obligations[:]:
        if len(samples) >= 8:
            break
        samples.append({k: o.get(k) for k in ('id', 'status', 'kind', 'src', 'time_ms', 'count') if o.get(k) is not None})
    ev = {
        'property_id': prop, 'tier': tier, 'seed': seed, 'level': 'proof',
        'coverage': {
            'obligations': n_total, 'discharged': n_dis,
            'checker_cmd': ' ; '.join(cmds),
            'trusted_base': assumptions + [TOOLS],
            'samples': samples,
            'functions_under_contract': [{'name': s['name'], 'unit': s['unit'], 'where': s.get('origin'), 'sha256': s.get('sha256'),
                                          'rewrites': s.get('rewrites'), 'hints': s.get('hints'), 'loop_contracts': s.get('loop_contracts'),
                                          'substs': s.get('substs'), 'functions': s.get('functions')} for s in slots],
            'units': [{'unit': r['unit'], 'backend': r['backend'], 'status': r['status'], 'wall_s': round(r.get('wall_s', 0), 2),
                       'solver_s': round(r.get('solver_s', 0), 3), 'attempts': r.get('attempts', 1)} for r in results],
            'solver_time_s': round(solver_s, 3),
            'undecided': undecided, 'unstable_obligations': unstable,
            'known_findings_hit': [o['id'] for o in known_hit],
            'failed_obligations': [o['id'] for o in violations],
            'scope': pcfg.get('scope', ''),
            'not_covered': pcfg.get('not_covered', []),
            'bounded': bounded, 'scan_hits': scan_hits,
            'repo_head': repo_head(), 'repo_dirty': repo_dirty(),
        },
        'assumptions': assumptions,
        'wall_s': round(wall, 2),
        'violations': len(violations),
    }
    os.makedirs(os.path.join(ROOT, 'evidence'), exist_ok=True)
    with open(os.path.join(ROOT, 'evidence', prop + '.json'), 'w') as fh:
        json.dump(ev, fh, indent=1)
    for l in lines:
        print(l)
    print('%s: %d obligations, %d discharged, %d violations, %d known findings, %d undecided reasons, %.1fs (solver %.1fs)' % (
        prop, n_total, n_dis, len(violations), len(known_hit), len(undecided), wall, solver_s))
    violations = [o for o in violations if o not in unconfirmed]
    if violations:
        return 1
    if undecided:
        return 2
    return 0


def cmd_unit(args):
    unit = args[0]
    reg = load_registry()
    ensure_setup()
    r = run_unit(unit, reg, 'quick', int(os.environ.get('VERIF_SEED', '0') or 0))
    print('unit %s: status=%s wall=%.1fs solver=%.2fs attempts=%s' % (unit, r['status'], r.get('wall_s', 0), r.get('solver_s', 0), r.get('attempts')))
    for why in r['reasons']:
        print('  UNDECIDED: ' + one_line(why, 400))
    for o in r['obligations']:
        if o['status'] != 'discharged' or '-v' in args:
            print('  [%s] %s  (%s) %s' % (o['status'], o['id'], ','.join(o['props']), o.get('src') or ''))
            if o['status'] == 'failed' and o.get('rendered') and '-q' not in args:
                print('      ' + o['rendered'].replace('\n', '\n      ')[:1500])
    nd = sum(o.get('count', 1) for o in r['obligations'] if o['status'] == 'discharged')
    print('  %d obligations discharged, %d failed' % (nd, len([o for o in r['obligations'] if o['status'] == 'failed'])))
    if r.get('unstable'):
        print('  unstable: %s' % r['unstable'])
    return 0 if r['status'] == 'ok' and not [o for o in r['obligations'] if o['status'] == 'failed'] else 1


def cmd_replay(args):
    path = args[0]
    rep = json.load(open(path))
    print('obligation : %s' % rep['obligation'])
    print('property   : %s' % rep['property'])
    print('source     : %s' % rep.get('source'))
    print('verifier   : %s' % rep.get('verifier_message'))
    if rep.get('input') is None:
        print('no failing input was found by the witness search; the verifier output follows')
        print(rep.get('verifier_output'))
        return 0
    return replayers.replay(rep)


def cmd_list(args):
    reg = load_registry()
    for p, c in sorted(reg['properties'].items()):
        print(p, ' '.join(c['units']))
    return 0


def main(argv):
    if not argv:
        print(__doc__)
        return 64
    cmd, args = argv[0], argv[1:]
    os.chdir(ROOT)
    if cmd == 'setup':
        return cmd_setup(args)
    if cmd == 'check':
        return cmd_check(args)
    if cmd == 'unit':
        return cmd_unit(args)
    if cmd == 'replay':
        return cmd_replay(args)
    if cmd == 'list':
        return cmd_list(args)
    if cmd == 'pin-derives':
        from . import derives as _derives
        print('pinned', _derives.pin())
        return 0
    print('unknown command', cmd)
    return 64
