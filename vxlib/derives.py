"""A-derive scan: the shims give the derived impls (Clone, PartialEq, Eq, PartialOrd, Ord, Hash, Default) of extracted types a
structural meaning. That is only right while the source still derives them. For every `//@type T in FILE` of the templates this
module reads the derive list in front of T's definition and the manual impls of those traits for T anywhere in the crate, and
compares them with the pinned state (units/derive_pins.json, written by `./vx pin-derives` on a tree where the assumption was
checked by reading). A difference does not decide anything: the properties that use the type become undecided."""
import os, re, json, glob
from .common import ROOT, REPO

PINS = os.path.join(ROOT, 'units', 'derive_pins.json')
TRAITS = ['Clone', 'Copy', 'PartialEq', 'Eq', 'PartialOrd', 'Ord', 'Hash', 'Default']


def extracted_types():
    out = set()
    for f in glob.glob(os.path.join(ROOT, 'units', '*.vx.rs')) + glob.glob(os.path.join(ROOT, 'units', 'parts', '*.vxp')):
        for line in open(f):
            m = re.match(r'\s*//@type\s+(\w+)\s+in\s+(\S+)', line)
            # //@type also extracts module-level constants (ALL_CAPS): nothing is derived for those
            if m and not re.fullmatch(r'[A-Z][A-Z0-9_]*', m.group(1)):
                out.add((m.group(1), m.group(2)))
    return sorted(out)


def _strip_tests(text):
    # the trailing `#[cfg(test)] mod ..` block (a `#[cfg(test)] mod x;` declaration at the top is not one)
    m = None
    for m in re.finditer(r'#\[cfg\(test\)\]\s*mod\s+\w+\s*\{', text):
        pass
    return text if m is None else text[:m.start()]


def state():
    """-> {"T in file": {"derives": [...], "manual": ["PartialOrd", ...]}}"""
    srcs = {}
    for dp, dn, fn in os.walk(os.path.join(REPO, 'core', 'src')):
        for f in fn:
            if f.endswith('.rs'):
                p = os.path.join(dp, f)
                srcs[os.path.relpath(p, REPO)] = _strip_tests(open(p, errors='replace').read())
    st = {}
    for name, path in extracted_types():
        text = srcs.get(path, '')
        derives = None
        lines = text.split('\n')
        for i, l in enumerate(lines):
            if re.match(r'\s*(?:pub(?:\([a-z]+\))?\s+)?(?:struct|enum)\s+%s\b' % re.escape(name), l):
                derives = []
                j = i - 1
                block = []
                while j >= 0 and (lines[j].strip().startswith('#') or lines[j].strip().startswith('//') or lines[j].strip() == '' or lines[j].strip().endswith(',') or lines[j].strip() in (')]', ')')):
                    if lines[j].strip() == '' and not any(x.strip().startswith('#') for x in lines[max(0, j - 3):j]):
                        break
                    block.append(lines[j])
                    j -= 1
                for d in re.findall(r'#\[derive\(([^)]*)\)\]', '\n'.join(reversed(block)), flags=re.S):
                    derives += [x.strip().split('::')[-1] for x in d.split(',') if x.strip()]
                derives = sorted(x for x in derives if x in TRAITS)
                break
        manual = set()
        for p2, t2 in srcs.items():
            for tr in TRAITS:
                if re.search(r'impl\s*(?:<[^>]*>\s*)?(?:[\w:]*::)?%s(?:<[^>]*>)?\s+for\s+%s\b' % (tr, re.escape(name)), t2):
                    # only impls in the file that defines the type, or for a type of that name imported from it
                    if p2 == path or re.search(r'\b%s\b' % re.escape(name), t2):
                        manual.add(tr)
        st['%s in %s' % (name, path)] = {'derives': derives, 'manual': sorted(manual)}
    return st


def pin():
    json.dump(state(), open(PINS, 'w'), indent=1, sort_keys=True)
    return PINS


def diff(only=None):
    """-> list of human-readable differences between the pinned and the current state (only: set of "T in file" keys)"""
    if not os.path.exists(PINS):
        return ['units/derive_pins.json is missing']
    pins = json.load(open(PINS))
    cur = state()
    out = []
    for k in sorted(set(pins) | set(cur)):
        if only is not None and k not in only:
            continue
        a, b = pins.get(k), cur.get(k)
        if a != b:
            out.append('%s: pinned %s, now %s' % (k, json.dumps(a), json.dumps(b)))
    return out
