//@unit lookup
//@property C07 C04
use vstd::prelude::*;
use std::ops::{Add, Div, Mul, Neg, Rem, Sub, BitAnd, BitOr, BitXor};
use std::cmp::Ordering;
use vstd::std_specs::cmp::{PartialEqSpec, PartialEqSpecImpl, PartialOrdSpec, PartialOrdSpecImpl};
verus! {
//@include prelude.rs
//@include f64.rs
//@include stdint.rs
//@include bigint.rs
//@include bigint_ops.rs
//@include bigrat.rs
//@include bigrat_ops.rs
//@include iter.rs
//@include btree.rs
//@include btree_iter.rs
//@include baseunit.rs
//@include string.rs
//@include chrono.rs
//@part numeric
//@part btree_merge
//@part dims
//@part number
//@part substance_stub
//@part ast
//@part registry_types
//@part lookup
//@part canon
//@part aliases
//@autoslots
} // verus!
fn main() {}
