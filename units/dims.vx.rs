//@unit dims
//@property C02 C04
use vstd::prelude::*;
use std::ops::{Add, Div, Mul, Neg, Rem, Sub, BitAnd, BitOr, BitXor};
use vstd::std_specs::cmp::{PartialEqSpec, PartialEqSpecImpl, PartialOrdSpec, PartialOrdSpecImpl};
verus! {
//@include prelude.rs
//@include iter.rs
//@include btree.rs
//@include btree_iter.rs
//@include baseunit.rs
//@part btree_merge
//@part dims
//@autoslots
} // verus!
fn main() {}
