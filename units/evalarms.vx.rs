//@unit evalarms
//@property C01 C02 C04
use vstd::prelude::*;
use std::ops::{Add, Div, Mul, Neg, Rem, Sub, BitAnd, BitOr, BitXor};
use std::cmp::Ordering;
use vstd::std_specs::cmp::{PartialEqSpec, PartialEqSpecImpl, PartialOrdSpec, PartialOrdSpecImpl};
verus! {
//@include prelude.rs
//@include f64.rs
//@include stdint.rs
//@include stdopt.rs
//@include bigint.rs
//@include bigint_ops.rs
//@include bigrat.rs
//@include bigrat_ops.rs
//@include iter.rs
//@include btree.rs
//@include btree_iter.rs
//@include baseunit.rs
//@include string.rs
//@include chrono.rs
//@part numeric
//@part btree_merge
//@part dims
//@part number
//@part dates
//@part substance_stub
//@part value
//@part ast
//@part registry_types
//@part reply_full
//@part reply_types_min2
//@part evalarms
//@part funcs
//@autoslots
} // verus!
fn main() {}
