//@unit bigwrap
//@property C01 C04
use vstd::prelude::*;
use std::ops::{Add, Div, Mul, Neg, Rem, Sub, BitAnd, BitOr, BitXor};
use std::cmp::Ordering;
use vstd::std_specs::cmp::{PartialEqSpec, PartialEqSpecImpl, PartialOrdSpec, PartialOrdSpecImpl};
verus! {
//@include prelude.rs
//@include f64.rs
//@include numlib.rs
//@include numlib_ops.rs
//@part bigwrap
} // verus!
fn main() {}
