//@unit display
//@property C11 C04
use vstd::prelude::*;
use std::ops::{Add, Div, Mul, Neg, Rem, Sub, BitAnd, BitOr, BitXor};
use std::cmp::Ordering;
use vstd::std_specs::cmp::{PartialEqSpec, PartialEqSpecImpl, PartialOrdSpec, PartialOrdSpecImpl};
verus! {
//@include prelude.rs
//@include f64.rs
//@include stdint.rs
//@include stdopt.rs
//@include bigint.rs
//@include bigint_ops.rs
//@include bigrat.rs
//@include bigrat_ops.rs
//@include iter.rs
//@include btree.rs
//@include baseunit.rs
//@include string.rs
//@include chrono.rs
//@include fmtlog.rs
//@part numeric
//@part ast
//@part display
//@part exprreply
//@autoslots
} // verus!
fn main() {}
